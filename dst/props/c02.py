"""C02 - server-side document text equals the client's after any edit sequence."""
from __future__ import annotations

from .. import gen, model
from ..sim import ROOT
from . import base

ID = "C02"
LEVEL = "exploration"
TECHNIQUE = ("deterministic simulation: seeded didOpen/didChange/didSave/didClose histories "
             "against the real server, compared after every sync event with an independent "
             "reference model of LSP edit semantics (client buffer) by in-process observation")
RULE = ("case = 1-3 documents (sample sources, generated text, empty, no trailing newline, CRLF, "
        "lone-CR, fixed-form, preprocessed) x 1-30 didChange notifications (ranged single/multi "
        "line inserts, deletes, replacements, multi-change notifications, full-document changes; "
        "LF/CRLF/CR in inserted text; both sync kinds) interleaved with queries, saves, close and "
        "re-open, delivered in seeded chunks. Non-trivial = at least 3 edits applied and compared; "
        "distinct = distinct digest of event log and output")
ASSUMPTIONS = [
    "didOpen.text equals the file on disk (the server reads the disk at open)",
    "positions are UTF-16 code units (LSP default; fortls negotiates no other encoding); a fifth of "
    "the cases contain characters outside the BMP, where units and code points differ",
    "edit ranges lie inside the current model document (the property's precondition)",
    "inserted text is split into lines on its own (editor semantics; a trailing CR of an insertion "
    "is never fused with a following LF of the document)",
    "TAB is compared as one blank on both sides (the disk loader maps it; coordinates unaffected)",
]
LEVEL_TEXT = ("Exploration with a reference model: every run applies a seeded edit history to the "
              "real FortranFile.apply_change through the real dispatcher and to an independent "
              "30-line model of LSP text synchronisation, and requires line-by-line equality after "
              "every notification (not only at the end).")
LEVEL_NOTE = ("Trusts dst/model.py as the statement of what an LSP-conforming client holds; reads "
              "FortranFile.contents_split in-process (the property's anchor).")


def plan(tier):
    return {"cases": 9000, "wall_s": 140} if tier == "quick" else {"cases": 300000, "wall_s": 1700}


def boundary_text(rng, tag):
    """a document larger than one I/O block in which a multi-byte character straddles a block
    boundary (readers that decode block by block see half a character on either side)"""
    block = rng.choice([4096, 8192, 8192, 16384, 65536])
    k = rng.randint(1, 2)
    ch = rng.choice(["é", "λ", "中", "€", "\U0001F600"])
    inside = rng.randint(1, len(ch.encode("utf-8")) - 1)  # bytes of the character before the boundary
    target = block * k - inside                           # byte offset at which the character starts
    out = []
    size = 0
    while target - size > 200:
        ln = "! " + "pad " * rng.randint(3, 20)
        out.append(ln)
        size += len(ln) + 1
    room = target - size - 2
    out.append("! " + "y" * room + ch + " straddles")
    body = gen.small_program(rng, tag).split("\n")
    return "\n".join(out + body), ".f90"


def initial_text(rng, tag, astral=False):
    if rng.random() < 0.05:
        return boundary_text(rng, tag)
    r = rng.random()
    if r < 0.35:
        rel, text = rng.choice(gen.corpus_sources())
        suffix = "." + rel.rsplit(".", 1)[1]
    elif r < 0.6:
        text = gen.small_program(rng, tag)
        suffix = rng.choice([".f90", ".f90", ".F90", ".f08"])
    elif r < 0.7:
        text = ""
        suffix = ".f90"
    elif r < 0.8:
        text = "      program fx\nc comment\n      integer i\n      i = 1\n     &   + 2\n      end\n"
        suffix = ".f"
    else:
        n = rng.randint(1, 12)
        text = "\n".join(gen.rand_line(rng, 0.2) for _ in range(n))
        if rng.random() < 0.5:
            text += "\n"
        suffix = rng.choice([".f90", ".F90", ".for"])
    eol = rng.random()
    if eol < 0.15:
        text = text.replace("\n", "\r\n")
    elif eol < 0.22:
        text = text.replace("\n", "\r")
    elif eol < 0.3 and text.endswith("\n"):
        text = text[:-1]
    if rng.random() < 0.1:
        text = text.replace("  ", "\t", rng.randint(1, 3))
    if astral:
        # characters outside the BMP (one code point, two UTF-16 units) in comments and strings
        ls = text.split("\n")
        for _ in range(rng.randint(1, 4)):
            k = rng.randrange(len(ls))
            a = rng.choice(gen.ASTRAL)
            ls[k] = rng.choice([ls[k] + " ! " + a + " c", ls[k] + "  x = '" + a + a + "z'", "! " + a + " " + ls[k]])
        text = "\n".join(ls)
    return text, suffix


def gen_sched(g):
    rng = base.rng_for(g)
    incremental = rng.random() < 0.85
    ndocs = rng.randint(1, 3)
    astral = rng.random() < 0.2
    tree = {}
    docs = {}
    for j in range(ndocs):
        tag = gen.rand_ident(rng, 3) + str(j)
        text, suffix = initial_text(rng, tag, astral)
        p = f"{ROOT}/{tag}{suffix}"
        tree[p] = text
        docs[p] = None
    paths = sorted(tree)
    ops = [gen.initialize(0), gen.initialized()]
    nid = [0]

    def rid():
        nid[0] += 1
        return nid[0]

    eol_of = {p: ("\r\n" if "\r\n" in tree[p] else ("\r" if "\r" in tree[p] else "\n")) for p in paths}
    disk = dict(tree)

    def open_doc(p):
        docs[p] = model.lines_from_disk(disk[p].encode("utf-8"))
        # clients number a document's versions from whatever they like at each didOpen
        ops.append(gen.did_open(p, disk[p], version=rng.choice([1, 1, 1, 0, 7, 100])))
        ops.append({"k": "obs", "what": "buffer"})

    for p in paths:
        if rng.random() < 0.8:
            open_doc(p)
    if all(v is None for v in docs.values()):
        open_doc(paths[0])
    nedits = rng.randint(1, 30)
    ver = 1
    used_texts = []
    faults = []

    def reuse(ch):
        """editors re-send identical texts all the time (undo/redo, paste): reuse earlier ones"""
        if used_texts and rng.random() < 0.25:
            ch = dict(ch, text=rng.choice(used_texts))
        used_texts.append(ch.get("text", ""))
        return ch

    for _ in range(nedits):
        open_now = [p for p in paths if docs[p] is not None]
        if not open_now:
            open_doc(rng.choice(paths))
            continue
        p = rng.choice(open_now)
        r = rng.random()
        if r < 0.72:
            ver += 1
            if incremental:
                nch = 1 if rng.random() < 0.8 else rng.randint(2, 4)
                changes = []
                for _c in range(nch):
                    ch = reuse(gen.rand_change(rng, docs[p], 0.12))
                    if astral and rng.random() < 0.3:
                        ch = dict(ch, text=ch["text"] + rng.choice(gen.ASTRAL))
                    ch = model.to_wire(docs[p], ch)  # generated in code points, sent in UTF-16 units
                    docs[p] = model.apply_change(docs[p], ch)
                    changes.append(ch)
            else:
                ch = model.to_wire(docs[p], gen.rand_change(rng, docs[p]))
                new = model.apply_change(docs[p], ch)
                docs[p] = new
                changes = [{"text": eol_of[p].join(new)}]
                docs[p] = model.split_lines(changes[0]["text"])
            ops.append(gen.did_change(p, changes, ver))
            ops.append({"k": "obs", "what": "buffer"})
        elif r < 0.82:
            li, ch = gen.rand_position(rng, docs[p])
            ops.append(gen.positional(rid(), rng.choice(gen.POSITIONAL_METHODS[:5]), p, li, ch))
        elif r < 0.9:
            text = eol_of[p].join(docs[p])
            disk[p] = text
            ops.append(gen.env_write(p, text))
            ops.append(gen.did_save(p))
            if rng.random() < 0.2:
                # the read behind this didSave fails (file momentarily unreadable/absent): the
                # server cannot refresh from disk and must simply keep the text it holds
                faults.append({"op": len(ops) - 1, "seam": "open", "nth": 0,
                               "kind": rng.choice(["enoent", "eio", "eacces", "eio-read"])})
            docs[p] = model.lines_from_disk(text.encode("utf-8"))
            ops.append({"k": "obs", "what": "buffer"})
        elif r < 0.92:
            # the file of the open document changes on disk behind the editor's back and the file
            # watcher says so: the buffer is the truth until the user saves or reverts
            other = rng.choice(["", "! replaced by another tool\n", disk[p] + "! appended\n", disk[p]])
            disk[p] = other
            ops.append(gen.env_write(p, other))
            ops.append(gen.note("workspace/didChangeWatchedFiles",
                                {"changes": [{"uri": gen.uri(p), "type": rng.choice([1, 2, 2])}]}))
            ops.append({"k": "obs", "what": "buffer"})
        elif r < 0.95:
            ops.append(gen.did_close(p))
            docs[p] = None
            if rng.random() < 0.3 and len(disk[p]) > 2:
                # while the document is closed another tool rewrites the file: other contents of the
                # very same size (and, under a coarse or frozen file-system clock, the same stamp)
                t = disk[p]
                cand = [j for j, c in enumerate(t) if c.isascii() and c.isalpha()]
                if cand:
                    j = rng.choice(cand)
                    t = t[:j] + ("q" if t[j] != "q" else "z") + t[j + 1:]
                    ls = t.split("\n")
                    if len(ls) > 3 and rng.random() < 0.5:
                        a, b = rng.sample(range(len(ls)), 2)
                        ls[a], ls[b] = ls[b], ls[a]
                        t = "\n".join(ls)
                    disk[p] = t
                    ops.append(gen.env_write(p, t))
            if rng.random() < 0.7:
                open_doc(p)
        else:
            ops.append(gen.req(rid(), "textDocument/documentSymbol", {"textDocument": {"uri": gen.uri(p)}}))
    ops += [gen.req(rid(), "shutdown"), gen.note("exit")]
    chunks = rng.choice([None, None, [1], [rng.choice([3, 17, 200, 4096]) for _ in range(3)]])
    return {"argv": (["--incremental_sync"] if incremental else []) + ["--disable_autoupdate"],
            "tree": tree, "ops": ops, "chunks": chunks, "faults": faults,
            "pipeline": False, "sync_kind": 2 if incremental else 1, "strict_edits": True,
            "n_edits": nedits, "fsclock": rng.choice(["fine", "fine", "coarse", "frozen"])}


def nontrivial(o):
    return o.get("ops", 0) >= 6
