"""C19 - command line and configuration file are interchangeable; the file wins."""
from __future__ import annotations

import json

from .. import gen
from ..sim import CANON, ROOT
from . import base

ID = "C19"
ENGINE = "startup"
LEVEL = "fault_enumeration"
TECHNIQUE = ("deterministic simulation of start-up: channel differential (CLI only / file only / "
             "both / absent) over every option the parser defines, observed through the option's "
             "effect on a fixed query battery and on the simulator's seams (pool size, network "
             "fake, debug log, recursion limit); enumerated configuration-file faults (missing, "
             "vanishing between isfile and open, unreadable, directory, empty, torn at every byte, "
             "wrong top-level type, wrong value types)")
RULE = ("case = one relation instance, executed as two bring-ups of the same workspace whose "
        "effect vectors must be equal: R1 effect(cli=v) == effect(file=v); R2 effect(cli=v1, "
        "file=v2) == effect(file=v2); R3 effect(cli=v, file silent on o) == effect(cli=v, no "
        "file); R4 effect(cli, faulty file) == effect(cli, no file) plus a user-visible message "
        "and a successful initialize. R1-R3 are enumerated for every option (and seeded option "
        "pairs), R4 over the fault catalogue incl. every byte cut of a valid JSON text. "
        "Non-trivial = the two effect vectors were both produced and the option's value differs "
        "from its default; distinct = distinct (relation, option, values, fault)")
ASSUMPTIONS = [
    "effects, not raw attribute values, are compared (pp_suffixes [] vs None both mean default)",
    "the effect battery is fixed; an option whose effect it does not exercise is reported in the "
    "evidence as 'no observable difference from default' rather than counted as covered",
    "a default-named configuration file that is absent needs no message; a file named with -c does",
]
EXHAUSTIVE = True
LEVEL_TEXT = ("Fault enumeration: the option x channel-state table and the configuration-fault "
              "catalogue are enumerated completely in every run of the check (the thorough tier "
              "adds all option pairs and more cut points); each entry is decided by exact equality "
              "of effect vectors of two bring-ups of the real initialize path.")
LEVEL_NOTE = ("Differential: cannot see an error common to both channels. The effect battery is the "
              "trusted observation; options with no effect in the battery are listed in the evidence.")

CONFIG_NAMES = [".fortlsrc", ".fortls.json", ".fortls"]
ELSEWHERE = ["myconf.json", "conf/settings.json", CANON + "/elsewhere/cfg.json"]

# option -> (kind, v1, v2)   kind: flag/int/str/set/list/json
OPTIONS = {
    "nthreads": ("int", 2, 7),
    "notify_init": ("flag", True, False),
    "incremental_sync": ("flag", True, False),
    "recursion_limit": ("int", 1500, 2500),
    "sort_keywords": ("flag", True, False),
    "disable_autoupdate": ("flag", True, False),
    "debug_log": ("flag", True, False),
    "source_dirs": ("set", ["sub"], ["other", "sub"]),
    "incl_suffixes": ("set", [".inc"], [".h2", "q9"]),
    "excl_suffixes": ("set", ["_x.f90"], [".F90", "n.f90"]),
    "excl_paths": ("set", ["sub"], ["other", "main.f90"]),
    "autocomplete_no_prefix": ("flag", True, False),
    "autocomplete_no_snippets": ("flag", True, False),
    "autocomplete_name_only": ("flag", True, False),
    "lowercase_intrinsics": ("flag", True, False),
    "use_signature_help": ("flag", True, False),
    "hover_signature": ("flag", True, False),
    "hover_language": ("str", "fortran", "FortranFreeForm"),
    "max_line_length": ("int", 30, 50),
    "max_comment_line_length": ("int", 20, 45),
    "disable_diagnostics": ("flag", True, False),
    "pp_suffixes": ("list", [".f90"], [".h", ".F90"]),
    "include_dirs": ("set", ["inc"], ["inc2"]),
    "pp_defs": ("json", {"FOO": ""}, {"BAR": "1", "BAZ": "2"}),
    "symbol_skip_mem": ("flag", True, False),
    "enable_code_actions": ("flag", True, False),
    "preserve_keyword_order": ("flag", True, False),
    "variable_hover": ("flag", True, False),
}


def cli_args(opt, val):
    kind = OPTIONS[opt][0]
    if kind == "flag":
        return ["--" + opt] if val else []
    if kind in ("int", "str"):
        return ["--" + opt, str(val)]
    if kind in ("set", "list"):
        return ["--" + opt] + list(val)
    if kind == "json":
        return ["--" + opt, json.dumps(val)]
    raise ValueError(kind)


def workspace():
    long_line = "  x = " + " + ".join(["1.0"] * 14)
    main = "\n".join([
        "program main_prog",
        "  use sub_mod, only: sub_thing",
        "  implicit none",
        "  type :: pt",
        "    integer :: mem_a",
        "    real, dimension(:), pointer :: mem_b => null()",
        "  contains",
        "    procedure :: meth",
        "  end type pt",
        "  real, target, dimension(:), allocatable :: x",
        "  integer :: sizer",
        "  ! a comment line that is moderately long, longer than twenty characters for sure",
        long_line,
        "  sizer = size(x)",
        "  call sub_thing(sizer, 2)",
        "  call sub_thing(",
        "  sizer = si",
        "  allo",
        "contains",
        "  subroutine meth(self, arg1)",
        "    class(pt), intent(inout) :: self",
        "    integer, optional, intent(in) :: arg1",
        "  end subroutine meth",
        "end program main_prog",
        "",
    ])
    sub = ("module sub_mod\ncontains\n  subroutine sub_thing(a, b)\n    integer, intent(in) :: a\n"
           "    integer, intent(in), optional :: b\n  end subroutine sub_thing\nend module sub_mod\n")
    other = "module other_mod\n  integer :: ov\nend module other_mod\n"
    pp = ("#include \"defs.h\"\nmodule pp_mod\n#ifdef FOO\n  integer :: with_foo\n#endif\n#ifdef BAR\n"
          "  integer :: with_bar\n#endif\n#ifdef FROM_INC\n  integer :: from_inc\n#endif\n#ifdef FROM_INC2\n"
          "  integer :: from_inc2\n#endif\n#if BAZ == 2\n  integer :: baz_two\n#endif\nend module pp_mod\n")
    low = ("module low_mod\n#ifdef FOO\n  integer :: low_foo\n#else\n  integer :: low_nofoo\n#endif\n"
           "end module low_mod\n")
    return {
        f"{ROOT}/main.f90": main,
        f"{ROOT}/sub/s.f90": sub,
        f"{ROOT}/other/o.f90": other,
        f"{ROOT}/pp.F90": pp,
        f"{ROOT}/low.f90": low,
        f"{ROOT}/inc/defs.h": "#define FROM_INC 1\n",
        f"{ROOT}/inc2/defs.h": "#define FROM_INC2 1\n",
        f"{ROOT}/x.inc": "module inc_mod\nend module inc_mod\n",
        f"{ROOT}/y.h2": "module h2_mod\nend module h2_mod\n",
        f"{ROOT}/zq9": "module q9_mod\nend module q9_mod\n",
        f"{ROOT}/a_x.f90": "module ax_mod\nend module ax_mod\n",
        f"{ROOT}/n.f90": "module n_mod\nend module n_mod\n",
        f"{ROOT}/hh.h": "module hh_mod\n#ifdef FOO\n integer :: hh_foo\n#endif\nend module hh_mod\n",
    }


def battery_ops():
    main = f"{ROOT}/main.f90"
    ops = [gen.initialize(0), gen.initialized(), {"k": "obs", "what": "indexed"},
           {"k": "obs", "what": "recursion"}]
    nid = [0]

    def rid():
        nid[0] += 1
        return nid[0]

    for p in (main, f"{ROOT}/pp.F90", f"{ROOT}/low.f90", f"{ROOT}/hh.h"):
        ops.append(gen.did_open(p, ""))
        ops.append(gen.req(rid(), "textDocument/documentSymbol", {"textDocument": {"uri": gen.uri(p)}}))
    ops.append(gen.req(rid(), "workspace/symbol", {"query": ""}))
    for (li, ch) in [(9, 45), (10, 15), (13, 12), (14, 10), (4, 17), (5, 40), (19, 16), (21, 45)]:
        ops.append(gen.positional(rid(), "textDocument/hover", main, li, ch))
    for (li, ch) in [(16, 12), (17, 6), (14, 8), (1, 8), (9, 7)]:
        ops.append(gen.positional(rid(), "textDocument/completion", main, li, ch))
    for (li, ch) in [(15, 17), (14, 24), (13, 15)]:
        ops.append(gen.positional(rid(), "textDocument/signatureHelp", main, li, ch))
    ops.append(gen.positional(rid(), "textDocument/codeAction", main, 3, 2))
    ops.append(gen.positional(rid(), "textDocument/definition", main, 14, 10))
    ch = {"range": {"start": {"line": 0, "character": 0}, "end": {"line": 0, "character": 0}}, "text": "! c\n"}
    ops.append(gen.did_change(main, [ch]))
    ops.append(gen.req(rid(), "textDocument/documentSymbol", {"textDocument": {"uri": gen.uri(main)}}))
    # the same questions again, now answered from a tree that was parsed inside the server process
    # (the first one came from the pool workers): every line has moved down by one
    for (li, ch_) in [(9, 45), (10, 15), (13, 12), (14, 10), (4, 17), (5, 40), (19, 16), (21, 45)]:
        ops.append(gen.positional(rid(), "textDocument/hover", main, li + 1, ch_))
    for (li, ch_) in [(16, 12), (17, 6), (14, 8), (1, 8), (9, 7)]:
        ops.append(gen.positional(rid(), "textDocument/completion", main, li + 1, ch_))
    for (li, ch_) in [(15, 17), (14, 24), (13, 15)]:
        ops.append(gen.positional(rid(), "textDocument/signatureHelp", main, li + 1, ch_))
    # options must keep their effect after re-parses (values snapshotted at start-up must not return)
    for p in (f"{ROOT}/pp.F90", f"{ROOT}/low.f90", f"{ROOT}/hh.h"):
        ops.append(gen.did_change(p, [dict(ch)]))
        ops.append(gen.req(rid(), "textDocument/documentSymbol", {"textDocument": {"uri": gen.uri(p)}}))
    late = f"{ROOT}/late_open.F90"
    ops.append(gen.env_write(late, "module late_mod\n#ifdef FOO\n  integer :: late_foo\n#endif\n#ifdef BAR\n"
                                   "  integer :: late_bar\n#endif\n#if BAZ == 2\n  integer :: late_baz\n#endif\n"
                                   "end module late_mod\n"))
    ops.append(gen.did_open(late, ""))
    ops.append(gen.req(rid(), "textDocument/documentSymbol", {"textDocument": {"uri": gen.uri(late)}}))
    ops.append(gen.did_save(f"{ROOT}/pp.F90"))
    ops.append(gen.req(rid(), "workspace/symbol", {"query": ""}))
    ops.append(gen.positional(rid(), "textDocument/hover", main, 10, 45))
    ops += [gen.req(rid(), "shutdown"), gen.note("exit")]
    return ops


def reload_ops(cfgpath, new_text):
    """the second half of an R6 session: rewrite the configuration file, tell the server, then ask
    again (re-parses included)"""
    main = f"{ROOT}/main.f90"
    ops = [gen.env_write(cfgpath, new_text),
           gen.note("workspace/didChangeConfiguration", {"settings": {}}),
           {"k": "obs", "what": "indexed"}]
    nid = [5000]

    def rid():
        nid[0] += 1
        return nid[0]

    ch = {"range": {"start": {"line": 0, "character": 0}, "end": {"line": 0, "character": 0}}, "text": "! d\n"}
    for p in (main, f"{ROOT}/pp.F90", f"{ROOT}/low.f90", f"{ROOT}/hh.h"):
        ops.append(gen.did_change(p, [dict(ch)]))
        ops.append(gen.req(rid(), "textDocument/documentSymbol", {"textDocument": {"uri": gen.uri(p)}}))
    ops.append(gen.req(rid(), "workspace/symbol", {"query": ""}))
    for (li, ch_) in [(9, 45), (10, 15), (13, 12), (14, 10), (4, 17), (5, 40), (19, 16), (21, 45)]:
        ops.append(gen.positional(rid(), "textDocument/hover", main, li + 2, ch_))
    for (li, ch_) in [(16, 12), (17, 6), (14, 8), (1, 8), (9, 7)]:
        ops.append(gen.positional(rid(), "textDocument/completion", main, li + 2, ch_))
    for (li, ch_) in [(15, 17), (14, 24), (13, 15)]:
        ops.append(gen.positional(rid(), "textDocument/signatureHelp", main, li + 2, ch_))
    ops.append(gen.did_save(f"{ROOT}/pp.F90"))
    # saving is what makes the server publish diagnostics (line lengths among them)
    ops.append(gen.env_write(main, "! d\n! c\n" + workspace()[main]))
    ops.append(gen.did_save(main))
    ops.append(gen.req(rid(), "workspace/symbol", {"query": "w"}))
    return ops


def with_reload(sched, cfgname, new_text):
    cfgpath = cfgname if cfgname.startswith("/") else f"{ROOT}/{cfgname}"
    ops = sched["ops"]
    tail = ops[-2:]  # shutdown, exit
    sched = dict(sched, ops=ops[:-2] + [{"k": "mark", "what": "reload"}] + reload_ops(cfgpath, new_text) + tail)
    sched["ops"] = [o for o in sched["ops"] if o.get("k") != "mark"]
    sched["reload_at"] = len(ops) - 2
    return sched


def bringup(argv, filecfg_text=None, cfgname=".fortlsrc", faults=None, extra_tree=None):
    tree = workspace()
    if filecfg_text is not None:
        tree[cfgname if cfgname.startswith("/") else f"{ROOT}/{cfgname}"] = filecfg_text
        if cfgname in ELSEWHERE and "-c" not in argv:
            # a configuration file with another name or in another place is named with -c
            argv = list(argv) + ["-c", cfgname]
    if extra_tree:
        tree.update(extra_tree)
    return {"argv": list(argv), "tree": tree, "ops": battery_ops(), "faults": faults or [],
            "want_effects": True, "transcript_from": 0, "network": "same", "release_version": "99.0.0",
            "sync_kind": 2, "strict_edits": False, "pool": {"assign": [0, 1]}}


def relation_table(tier):
    """the enumerated part: list of (kind, spec)"""
    tab = []
    for opt in OPTIONS:
        kind, v1, v2 = OPTIONS[opt]
        tab.append(("R0", {"opt": opt, "v": v1}))
        tab.append(("R1", {"opt": opt, "v": v1}))
        if kind != "flag":
            tab.append(("R1", {"opt": opt, "v": v2}))
        tab.append(("R2", {"opt": opt, "cli": v1, "file": v2}))
        tab.append(("R2", {"opt": opt, "cli": v2, "file": v1}))
        # the file's value wins also when it is the "empty" value of its kind
        empty = {"flag": False, "int": 0, "str": "", "set": [], "list": [], "json": {}}[kind]
        if opt not in ("nthreads", "recursion_limit"):
            tab.append(("R2", {"opt": opt, "cli": v1, "file": empty}))
        tab.append(("R3", {"opt": opt, "v": v1, "file": {}}))
        other = "hover_language" if opt != "hover_language" else "nthreads"
        tab.append(("R3", {"opt": opt, "v": v1, "file": {other: OPTIONS[other][1]}}))
    # R6: the configuration file is rewritten while the server runs and the client says so
    # (workspace/didChangeConfiguration). A server may ignore that or load the new file; what it may
    # not do is end up with options that correspond to neither file
    for opt in OPTIONS:
        kind, v1, v2 = OPTIONS[opt]
        other = "max_line_length" if opt != "max_line_length" else "hover_language"
        tab.append(("R6", {"opt": opt, "cli": v1, "f1": {opt: v2}, "f2": {other: OPTIONS[other][1]}}))
        tab.append(("R6", {"opt": opt, "cli": v2, "f1": {opt: v1, other: OPTIONS[other][2]}, "f2": {}}))
    # configuration faults
    valid = json.dumps({"nthreads": 3, "hover_language": "ff", "pp_defs": {"FOO": ""}, "excl_paths": ["sub"]})
    base_cli = [["--hover_language", "clilang"], ["--pp_defs", '{"BAR": "1"}', "--pp_suffixes", ".f90"]]
    for cli in base_cli:
        for fault in ["named-missing", "vanish", "eacces", "eio-read", "named-eacces-other-present",
                      "named-vanish-other-present", "named-torn-other-present", "directory", "named-directory",
                      "empty", "top-list", "top-int", "top-str", "top-null", "top-bool", "binary"]:
            tab.append(("R4", {"cli": cli, "fault": fault, "text": valid}))
        cuts = range(1, len(valid)) if tier == "thorough" else range(1, len(valid), 3)
        for c in cuts:
            tab.append(("R4", {"cli": cli, "fault": "torn", "text": valid, "cut": c}))
    wrong = [("nthreads", "four"), ("nthreads", [1]), ("source_dirs", 5), ("source_dirs", "sub"),
             ("pp_defs", 3), ("pp_defs", "FOO"), ("incl_suffixes", "abc"), ("incl_suffixes", [1, 2]),
             ("max_line_length", "80"), ("hover_language", 5), ("notify_init", "yes"),
             ("excl_paths", {"a": 1}), ("recursion_limit", None), ("pp_suffixes", ".f90"),
             ("include_dirs", 7), ("disable_diagnostics", 1), ("excl_suffixes", None),
             ("max_comment_line_length", 2.5), ("sort_keywords", []), ("debug_log", "true")]
    for opt, val in wrong:
        tab.append(("R4", {"cli": base_cli[0], "fault": "wrong-type",
                           "text": json.dumps(dict([("hover_language", "ff"), (opt, val)])), "wopt": opt}))
    return tab


def plan(tier):
    n = len(relation_table(tier))
    return {"cases": n + (60 if tier == "quick" else 1500), "wall_s": 150 if tier == "quick" else 1700}


def gen_case(g):
    i = g["i"]
    tab = relation_table(g["tier"])
    rng = base.rng_for(g)
    if i < len(tab):
        rel, spec = tab[i]
    else:
        # seeded pairs of options through mixed channels
        o1, o2 = rng.sample(sorted(OPTIONS), 2)
        rel, spec = "R5", {"o1": o1, "o2": o2, "v1": OPTIONS[o1][1], "v2": OPTIONS[o2][2],
                           "chan": rng.choice(["cf", "fc"])}
    cfgname = rng.choice(CONFIG_NAMES)
    if rel in ("R1", "R2", "R3", "R5", "R6") and rng.random() < 0.4:
        # the file may have any name and live anywhere; what it says means the same
        cfgname = rng.choice(ELSEWHERE)
    A = B = None
    expect_message = False
    if rel == "R0":  # visibility probe (never a violation): does the battery see the option at all?
        A = bringup(cli_args(spec["opt"], spec["v"]))
        B = bringup([])
    elif rel == "R1":
        opt, v = spec["opt"], spec["v"]
        A = bringup(cli_args(opt, v))
        B = bringup([], json.dumps({opt: v}), cfgname)
    elif rel == "R2":
        opt = spec["opt"]
        A = bringup(cli_args(opt, spec["cli"]), json.dumps({opt: spec["file"]}), cfgname)
        B = bringup([], json.dumps({opt: spec["file"]}), cfgname)
    elif rel == "R3":
        opt, v = spec["opt"], spec["v"]
        A = bringup(cli_args(opt, v), json.dumps(spec["file"]), cfgname)
        B = bringup(cli_args(opt, v) + [a for k, val in spec["file"].items() for a in cli_args(k, val)])
    elif rel == "R5":
        o1, o2 = spec["o1"], spec["o2"]
        if spec["chan"] == "cf":
            A = bringup(cli_args(o1, spec["v1"]), json.dumps({o2: spec["v2"]}), cfgname)
        else:
            A = bringup(cli_args(o2, spec["v2"]), json.dumps({o1: spec["v1"]}), cfgname)
        B = bringup(cli_args(o1, spec["v1"]) + cli_args(o2, spec["v2"]))
    elif rel == "R6":
        cli = cli_args(spec["opt"], spec["cli"])
        t1, t2 = json.dumps(spec["f1"]), json.dumps(spec["f2"])
        A = with_reload(bringup(cli, t1, cfgname), cfgname, t2)   # F1, then F2 + notification
        B = with_reload(bringup(cli, t1, cfgname), cfgname, t1)   # F1 all along
        B2 = with_reload(bringup(cli, t2, cfgname), cfgname, t2)  # F2 all along
        return {"rel": rel, "spec": spec, "A": A, "B": B, "B2": B2, "expect_message": False, "cfgname": cfgname}
    elif rel == "R4":
        cli = spec["cli"]
        f = spec["fault"]
        text = spec["text"]
        B = bringup(cli)
        expect_message = True
        if f == "named-missing":
            A = bringup(cli + ["-c", "missing_cfg.json"])
        elif f == "vanish":
            A = bringup(cli, text, cfgname, faults=[{"op": 0, "seam": "open", "nth": 0, "kind": "race",
                                                     "env": [gen.env_delete(f"{ROOT}/{cfgname}")]}])
            B = bringup(cli)
        elif f in ("eacces", "eio-read"):
            A = bringup(cli, text, cfgname, faults=[{"op": 0, "seam": "open", "nth": 0, "kind": f}])
            B = bringup(cli, text, cfgname)
            B["tree"].pop(f"{ROOT}/{cfgname}")
            B["tree"][f"{ROOT}/{cfgname}.bak"] = text
            A["tree"][f"{ROOT}/{cfgname}.bak"] = text
        elif f in ("named-eacces-other-present", "named-vanish-other-present", "named-torn-other-present"):
            # the file asked for with -c is faulty while another, valid, default-named file exists:
            # the options must stay at their command-line values, not take those of the other file
            other = json.dumps({"incremental_sync": True, "enable_code_actions": True, "nthreads": 5,
                                "hover_language": "otherfile", "excl_paths": ["other"]})
            mine = text if f != "named-torn-other-present" else text[: len(text) // 2]
            flt = []
            if f == "named-eacces-other-present":
                flt = [{"op": 0, "seam": "open", "nth": 0, "kind": "eacces"}]
            elif f == "named-vanish-other-present":
                flt = [{"op": 0, "seam": "open", "nth": 0, "kind": "race",
                        "env": [gen.env_delete(f"{ROOT}/myconf.json")]}]
            A = bringup(cli + ["-c", "myconf.json"], mine, "myconf.json", faults=flt,
                        extra_tree={f"{ROOT}/.fortls.json": other})
            B = bringup(cli, extra_tree={f"{ROOT}/myconf.json.bak": mine, f"{ROOT}/.fortls.json.bak": other})
            if f != "named-vanish-other-present":
                A["tree"][f"{ROOT}/myconf.json.bak"] = mine
            else:
                A["tree"][f"{ROOT}/myconf.json.bak"] = mine
                B["tree"].pop(f"{ROOT}/myconf.json.bak")
                B["tree"][f"{ROOT}/myconf.json.bak"] = mine
            A["tree"][f"{ROOT}/.fortls.json.bak"] = other
        elif f == "directory":
            A = bringup(cli, extra_tree={f"{ROOT}/{cfgname}/": ""})
            B = bringup(cli, extra_tree={f"{ROOT}/{cfgname}x/": ""})
            expect_message = False
        elif f == "named-directory":
            A = bringup(cli + ["-c", "cfgdir"], extra_tree={f"{ROOT}/cfgdir/": ""})
            B = bringup(cli, extra_tree={f"{ROOT}/cfgdir/": ""})
        else:
            bad = {"empty": "", "top-list": "[1, 2]", "top-int": "3", "top-str": '"x"', "top-null": "null",
                   "top-bool": "true", "binary": "\x00\x01{", "torn": text[: spec.get("cut", 1)],
                   "wrong-type": text}[f]
            A = bringup(cli, bad, cfgname)
            B = bringup(cli, bad, cfgname + ".bak")
    return {"rel": rel, "spec": spec, "A": A, "B": B, "expect_message": expect_message,
            "cfgname": cfgname}


def exec_case(case, run_fn):
    ra = run_fn(case["A"])
    rb = run_fn(case["B"])
    viol = []
    summ = dict(ra)
    summ["runs"] = 2
    if case["rel"] == "R6":
        rb2 = run_fn(case["B2"])
        summ["runs"] = 3
        summ["steps"] = ra.get("steps", 0) + rb.get("steps", 0) + rb2.get("steps", 0)
        summ["fired"] = []
        for r in (ra, rb, rb2):
            if r.get("status") != "done":
                summ["status"] = r.get("status")
                summ["error"] = r.get("error")
                summ["violations"] = [v for x in (ra, rb, rb2) for v in x.get("violations", [])]
                return summ

        def tail(r):
            # effects from the reload notification on (labels are per-method ordinals, equal in all runs)
            eff = r.get("effects", [])
            k = next((j for j, e in enumerate(eff) if e[0].startswith("workspace/didChangeConfiguration")), len(eff))
            return eff[k:]

        ta, tb, tb2 = tail(ra), tail(rb), tail(rb2)
        d1, d2 = first_diff(ta, tb), first_diff(ta, tb2)
        spec = case["spec"]
        if d1 is not None and d2 is not None:
            viol.append({"prop": "C19", "clause": "R6-neither-file",
                         "site": f"{spec['opt']}: {d1[0]} / {d2[0]}",
                         "detail": f"{spec}: after the configuration file was rewritten and announced the answers "
                                   f"match neither a server on the old file ({d1[1][:300]}) nor one on the new "
                                   f"file ({d2[1][:300]})", "op": 0, "coarse": f"R6:{spec['opt']}"})
        summ["violations"] = [v for x in (ra, rb, rb2) for v in x.get("violations", [])] + viol
        summ["sample"] = {"rel": "R6", "spec": spec}
        import hashlib

        summ["digest"] = hashlib.sha256(json.dumps(["R6", spec, ta, tb, tb2], sort_keys=True).encode()).hexdigest()
        return summ
    summ["steps"] = ra.get("steps", 0) + rb.get("steps", 0)
    summ["fired"] = ra.get("fired", []) + rb.get("fired", [])
    rel, spec = case["rel"], case["spec"]
    what = spec.get("opt") or spec.get("fault") or f"{spec.get('o1')}+{spec.get('o2')}"
    if spec.get("fault") == "wrong-type":
        what = f"wrong-type:{spec['wopt']}"
    for r in (ra, rb):
        if r.get("status") != "done":
            summ["status"] = r.get("status")
            summ["error"] = r.get("error")
            summ["violations"] = list(ra.get("violations", [])) + list(rb.get("violations", []))
            return summ
    ea, eb = ra.get("effects", []), rb.get("effects", [])
    def show_msgs(eff):
        return [n for e in eff if isinstance(e[1], dict) for n in e[1].get("notifications", [])
                if n.get("method") == "window/showMessage"]

    def without_msgs(eff):
        out = []
        for lab, val in eff:
            if isinstance(val, dict) and "notifications" in val:
                val = dict(val, notifications=[n for n in val["notifications"]
                                               if n.get("method") != "window/showMessage"])
            out.append([lab, val])
        return out

    ia = next((e for e in ea if e[0] == "initialize"), None)
    ia_resp = (ia[1].get("response") or {}) if ia else {}
    if rel == "R0":
        summ["visible"] = [spec["opt"], first_diff(ea, eb) is not None]
    elif rel == "R4":
        msgs_a = show_msgs(ea)
        msgs_b = show_msgs(eb)
        if ia is None or "error" in ia_resp or "result" not in ia_resp:
            esite = (ia_resp.get("error") or {}).get("site", "?")
            viol.append({"prop": "C19", "clause": "faulty-config:initialize-failed",
                         "site": f"{what}: {esite}",
                         "detail": f"{spec} -> {str(ia)[:400]}", "op": 0,
                         "coarse": f"faulty-config:initialize-failed:{esite}"})
        else:
            if case["expect_message"] and len(msgs_a) <= len(msgs_b):
                viol.append({"prop": "C19", "clause": "faulty-config:no-message", "site": what,
                             "detail": f"{spec}: no window/showMessage beyond the baseline's {msgs_b}", "op": 0})
            ea2 = without_msgs(ea)
            eb2 = without_msgs(eb)
            d = first_diff(ea2, eb2)
            if d is not None:
                viol.append({"prop": "C19", "clause": "faulty-config:options-changed",
                             "site": f"{what}: {d[0]}", "detail": f"{spec}: {d[1]}", "op": 0,
                             "coarse": f"faulty-config:options-changed:{what}"})
    else:
        d = first_diff(ea, eb)
        if d is not None:
            viol.append({"prop": "C19", "clause": f"{rel}-effect-differs", "site": f"{what}: {d[0]}",
                         "detail": f"{spec}: {d[1]}", "op": 0, "coarse": f"{rel}:{what}"})
    # effect visible at all? (evidence only)
    summ["violations"] = list(ra.get("violations", [])) + list(rb.get("violations", [])) + viol
    summ["sample"] = {"rel": rel, "spec": spec}
    import hashlib

    summ["digest"] = hashlib.sha256(json.dumps([rel, spec, ea, eb], sort_keys=True).encode()).hexdigest()
    return summ


def first_diff(a, b):
    for k in range(max(len(a), len(b))):
        x = a[k] if k < len(a) else None
        y = b[k] if k < len(b) else None
        if x != y:
            lab = (x or y)[0]
            return lab, f"entry {k}: A={json.dumps(x)[:500]} B={json.dumps(y)[:500]}"
    return None


def nontrivial(o):
    return o["status"] == "done"


def extra_evidence(outcomes):
    vis = {}
    for o in outcomes:
        v = o.get("visible")
        if v:
            vis[v[0]] = v[1]
    return {"options_with_visible_effect_in_battery": sorted(k for k, x in vis.items() if x),
            "options_without_observable_difference_from_default": sorted(k for k, x in vis.items() if not x),
            "enumerated_relation_instances": len(relation_table("quick"))}


def key(o):
    return o.get("sched_digest", "")


from .base import CaseInWorker  # noqa: E402
import sys as _sys  # noqa: E402

CASE = CaseInWorker(_sys.modules[__name__])
