"""C20 - cyclic / self-referential program structure never causes unbounded recursion."""
from __future__ import annotations

import re

from .. import gen, model
from ..sim import ROOT
from . import base

ID = "C20"
LEVEL = "exploration"
TECHNIQUE = ("deterministic simulation: a catalogue of cyclic workspaces (USE, EXTENDS, submodule "
             "ancestry, pointer/ASSOCIATE links, type-bound links, INCLUDE, #include; lengths 1-4) "
             "brought into being in different orders (all at start-up through the pool, closed by "
             "the last didOpen, closed by an edit + save, broken and re-closed) under a recursion-"
             "limit knob, then queried at every identifier; step-clock liveness oracle, crash and "
             "recursion-failure detection on the wire")
RULE = ("case = (cycle shape, length 1..4, same-file or cross-file variant) x (closure order) x "
        "(recursion_limit in 500/1000/5000) x seeded positions. Non-trivial = the cycle was "
        "closed and at least 20 positional requests were answered afterwards; distinct = distinct "
        "digest of event log and output")
ASSUMPTIONS = [
    "bounded time = 3e6 interpreter steps per operation (ordinary operations on these workspaces "
    "use 1e3..1e5) plus wall-clock, RLIMIT_AS and signal backstops",
    "the cycle catalogue is input; what is simulated is how and when each cycle is closed",
]
LEVEL_TEXT = ("Exploration: every catalogue entry is executed under every closure order in the "
              "quick tier (seeded choice of knob and positions), so the deciding search is over "
              "the order in which incremental link resolution meets the cycle; liveness is decided "
              "by the deterministic step clock, not by a wall-clock timeout.")
LEVEL_NOTE = ("Catalogue-bounded: cycle kinds outside the listed seven are not generated. C-stack "
              "exhaustion under a raised recursion limit is observed as a signal of the child.")

SHAPES = ["use", "extends_same", "extends_cross", "submodule", "submodule_direct", "pointer", "pointer_cross",
          "associate",
          "tbp", "proc_interface", "include", "include_scoped", "include_mixed", "ppinclude", "interface_proc", "use_only_rename", "func_result"]
CLOSURES = ["startup", "last_open", "edit_save", "break_reclose", "touch_each"]


def plan(tier):
    n = len(SHAPES) * 4 * len(CLOSURES)
    return {"cases": n * 2, "wall_s": 150} if tier == "quick" else {"cases": n * 60, "wall_s": 1700}


def nxt(i, L):
    return (i + 1) % L


def build(shape, L, tag):
    """returns (files: name->text, breaker: (name, cyclic_line, benign_line))
    The breaker names one line whose replacement by the benign line opens the cycle."""
    f = {}
    T = tag
    if shape == "use":
        for i in range(L):
            j = nxt(i, L)
            f[f"u{i}_{T}.f90"] = (
                f"module mu{i}_{T}\n  use mu{j}_{T}\n  implicit none\n  integer :: v{i}_{T}\ncontains\n"
                f"  subroutine s{i}_{T}()\n    v{i}_{T} = v{j}_{T} + 1\n    call s{j}_{T}()\n  end subroutine\n"
                f"end module mu{i}_{T}\n")
        brk = (f"u0_{T}.f90", f"  use mu{nxt(0, L)}_{T}", "  ! use removed")
    elif shape == "use_only_rename":
        for i in range(L):
            j = nxt(i, L)
            f[f"r{i}_{T}.f90"] = (
                f"module mr{i}_{T}\n  use mr{j}_{T}, only: w{i}_{T} => w{j}_{T}, mr{j}_{T}\n  implicit none\n"
                f"  integer :: q{i}_{T}\ncontains\n  subroutine z{i}_{T}()\n    q{i}_{T} = w{i}_{T}\n  end subroutine\n"
                f"end module mr{i}_{T}\n")
        brk = (f"r0_{T}.f90", f"  use mr{nxt(0, L)}_{T}, only: w0_{T} => w{nxt(0, L)}_{T}, mr{nxt(0, L)}_{T}",
               "  ! use removed")
    elif shape == "extends_same":
        body = [f"module me_{T}", "  implicit none"]
        for i in range(L):
            j = nxt(i, L)
            body += [f"  type, extends(t{j}_{T}) :: t{i}_{T}", f"    integer :: c{i}_{T}", "  contains",
                     f"    procedure :: p{i}_{T}", f"    procedure :: ov_{T} => ov{i}_{T}", f"  end type t{i}_{T}"]
        body += ["contains"]
        for i in range(L):
            body += [f"  subroutine p{i}_{T}(self)", f"    class(t{i}_{T}) :: self",
                     f"    print *, self%c{i}_{T}, self%c{nxt(i, L)}_{T}", f"    call self%p{nxt(i, L)}_{T}()",
                     f"    call self%ov_{T}()", "  end subroutine",
                     f"  subroutine ov{i}_{T}(self)", f"    class(t{i}_{T}) :: self", "  end subroutine"]
        body[-1:-1] = []  # (procedures above)
        # tail types that extend a member of the cycle without being on it (rho shape)
        tail_types = [f"  type, extends(t0_{T}) :: tail_{T}", f"    integer :: ct_{T}", "  contains",
                      f"    procedure :: ov_{T} => ovt_{T}", f"  end type tail_{T}",
                      f"  type, extends(tail_{T}) :: tail2_{T}", "  contains",
                      f"    procedure :: ov_{T} => ovt2_{T}", f"  end type tail2_{T}"]
        k = body.index("contains")
        body[k:k] = tail_types
        body += [f"  subroutine ovt_{T}(self)", f"    class(tail_{T}) :: self", f"    call self%ov_{T}()",
                 "  end subroutine", f"  subroutine ovt2_{T}(self)", f"    class(tail2_{T}) :: self",
                 f"    print *, self%ct_{T}, self%c0_{T}", "  end subroutine"]
        body += [f"end module me_{T}", f"program pe_{T}", f"  use me_{T}", f"  type(t0_{T}) :: o",
                 f"  type(tail2_{T}) :: ot",
                 f"  o%c0_{T} = 1", f"  call o%p0_{T}()", f"  call ot%ov_{T}()",
                 # chains whose middle part is no component of the (cyclic) type, or its parent part
                 f"  o%zz_{T}%n = 2", f"  print *, ot%zz_{T}%c0_{T}%x, o%t{nxt(0, L)}_{T}%c{nxt(0, L)}_{T}",
                 f"  associate (qa_{T} => o%zz_{T}%n, qb_{T} => ot%tail_{T}%zz_{T}%m)", f"    print *, qa_{T}, qb_{T}",
                 "  end associate", f"end program pe_{T}"]
        f[f"e_{T}.f90"] = "\n".join(body) + "\n"
        brk = (f"e_{T}.f90", f"  type, extends(t{nxt(0, L)}_{T}) :: t0_{T}", f"  type :: t0_{T}")
    elif shape == "extends_cross":
        for i in range(L):
            j = nxt(i, L)
            f[f"x{i}_{T}.f90"] = (
                f"module mx{i}_{T}\n  use mx{j}_{T}\n  implicit none\n  type, extends(tx{j}_{T}) :: tx{i}_{T}\n"
                f"    real :: d{i}_{T}\n  contains\n    procedure :: g{i}_{T}\n    procedure :: ovx_{T} => ovx{i}_{T}\n"
                f"  end type\ncontains\n"
                f"  subroutine g{i}_{T}(self)\n    class(tx{i}_{T}) :: self\n    self%d{i}_{T} = self%d{j}_{T}\n"
                f"    call self%ovx_{T}()\n  end subroutine\n"
                f"  subroutine ovx{i}_{T}(self)\n    class(tx{i}_{T}) :: self\n  end subroutine\nend module mx{i}_{T}\n")
        f[f"xp_{T}.f90"] = (f"program px_{T}\n  use mx0_{T}\n  type(tx0_{T}) :: o\n  o%d0_{T} = 1.0\n"
                            f"  call o%g0_{T}()\n  o%zz_{T}%n = 2\n  print *, o%zz_{T}%d0_{T}%x, o%tx{nxt(0, L)}_{T}%d{nxt(0, L)}_{T}\n"
                            f"  associate (qa_{T} => o%zz_{T}%n)\n    print *, qa_{T}\n  end associate\nend program\n")
        brk = (f"x0_{T}.f90", f"  type, extends(tx{nxt(0, L)}_{T}) :: tx0_{T}", f"  type :: tx0_{T}")
    elif shape == "submodule":
        f[f"sm_{T}.f90"] = (f"module par_{T}\n  implicit none\n  interface\n    module subroutine ms_{T}(a)\n"
                            f"      integer :: a\n    end subroutine\n  end interface\nend module par_{T}\n")
        for i in range(L):
            j = nxt(i, L)
            # submodule i names submodule j as its parent; L == 1: names itself
            f[f"sb{i}_{T}.f90"] = (
                f"submodule (par_{T}:sb{j}_{T}) sb{i}_{T}\n  implicit none\n  integer :: k{i}_{T}\ncontains\n"
                f"  module subroutine ms_{T}(a)\n    integer :: a\n    k{i}_{T} = a + k{j}_{T}\n  end subroutine\n"
                f"end submodule sb{i}_{T}\n")
        if L >= 2:
            f[f"sbs_{T}.f90"] = (f"submodule (sbs_{T}) sbs_{T}\ncontains\n  subroutine q_{T}()\n  end subroutine\n"
                                 f"end submodule\n")
        # a leaf submodule hanging off the cycle without being on it (rho shape): names of its
        # ancestors, of nobody, and locals that may mask host names
        f[f"sbtail_{T}.f90"] = (
            f"submodule (par_{T}:sb0_{T}) sbtail_{T}\n  implicit none\n  integer :: kt_{T}\ncontains\n"
            f"  subroutine wt_{T}(a)\n    integer :: a\n    integer :: k0_{T}\n    kt_{T} = a + k{nxt(0, L)}_{T} + nowhere_{T}\n"
            f"    call ms_{T}(kt_{T})\n  end subroutine\nend submodule sbtail_{T}\n")
        brk = (f"sb0_{T}.f90", f"submodule (par_{T}:sb{nxt(0, L)}_{T}) sb0_{T}", f"submodule (par_{T}) sb0_{T}")
    elif shape == "submodule_direct":
        # submodules naming each other (or themselves) directly as parent
        f[f"sd_{T}.f90"] = (f"module pard_{T}\n  implicit none\n  integer :: pv_{T}\nend module pard_{T}\n")
        for i in range(L):
            j = nxt(i, L)
            f[f"sd{i}_{T}.f90"] = (
                f"submodule (sd{j}_{T}) sd{i}_{T}\n  implicit none\n  integer :: kd{i}_{T}\ncontains\n"
                f"  subroutine wd{i}_{T}(a)\n    integer :: a\n    kd{i}_{T} = a + kd{j}_{T} + pv_{T}\n"
                f"    call wd{j}_{T}(a)\n  end subroutine\nend submodule sd{i}_{T}\n")
        f[f"sdtail_{T}.f90"] = (
            f"submodule (sd0_{T}) sdtail_{T}\n  implicit none\n  integer :: kdt_{T}\ncontains\n"
            f"  subroutine wdt_{T}(a)\n    integer :: a\n    integer :: kd0_{T}\n"
            f"    kdt_{T} = a + kd{nxt(0, L)}_{T} + pv_{T} + nowhere_{T}\n    call wd0_{T}(a)\n  end subroutine\n"
            f"end submodule sdtail_{T}\n")
        brk = (f"sd0_{T}.f90", f"submodule (sd{nxt(0, L)}_{T}) sd0_{T}", f"submodule (pard_{T}) sd0_{T}")
    elif shape == "include_scoped":
        # INCLUDE cycles where the INCLUDE statements sit inside program units
        for i in range(L):
            j = nxt(i, L)
            f[f"is{i}_{T}.f90"] = (f"subroutine is{i}_{T}()\n  integer :: iw{i}_{T}\n  include 'is{j}_{T}.f90'\n"
                                   f"  iw{i}_{T} = 1\nend subroutine is{i}_{T}\n")
        f[f"ismain_{T}.f90"] = (f"program pis_{T}\n  include 'is0_{T}.f90'\n  call is0_{T}()\nend program\n")
        brk = (f"is0_{T}.f90", f"  include 'is{nxt(0, L)}_{T}.f90'", "  ! include removed")
    elif shape == "include_mixed":
        # included files with top-level declarations *and* a program unit that includes the next
        for i in range(L):
            j = nxt(i, L)
            f[f"im{i}_{T}.f90"] = (f"integer :: mv{i}_{T}\nsubroutine mq{i}_{T}()\n  include 'im{j}_{T}.f90'\n"
                                   f"  mv{j}_{T} = 1\nend subroutine mq{i}_{T}\n")
        f[f"immain_{T}.f90"] = (f"program pim_{T}\n  implicit none\n  include 'im0_{T}.f90'\n  mv0_{T} = 2\n"
                                f"end program\n")
        brk = (f"im0_{T}.f90", f"  include 'im{nxt(0, L)}_{T}.f90'", "  ! include removed")
    elif shape == "proc_interface":
        # procedures whose dummy procedure argument is declared with the procedure itself (or with
        # each other) as interface
        body = [f"module mpi_{T}", "  implicit none", "contains"]
        for i in range(L):
            j = nxt(i, L)
            body += [f"  subroutine pf{i}_{T}(f, n)", f"    procedure(pf{j}_{T}) :: f", "    integer :: n",
                     f"    call f(pf{i}_{T}, n)", "  end subroutine"]
        # hosts with two dummy procedures declared with the host itself / with each other
        body += [f"  subroutine pg_{T}(f, g)", f"    procedure(pg_{T}) :: f, g", f"    call f(g, f)",
                 f"    call g(pg_{T}, f)", "  end subroutine",
                 f"  subroutine ph_{T}(f, g, n)", f"    procedure(pk_{T}) :: f", f"    procedure(pk_{T}), pointer :: g",
                 "    integer :: n", "    call f(g, f, n)", "  end subroutine",
                 f"  subroutine pk_{T}(f, g, n)", f"    procedure(ph_{T}) :: f, g", "    integer :: n",
                 "    call g(f, g, n)", "  end subroutine"]
        body += [f"  subroutine drv_{T}()", f"    call pf0_{T}(pf{nxt(0, L)}_{T}, 1)",
                 f"    call pg_{T}(pg_{T}, pg_{T})", f"    call ph_{T}(pk_{T}, pk_{T}, 1)", "  end subroutine",
                 f"end module mpi_{T}"]
        f[f"pi_{T}.f90"] = "\n".join(body) + "\n"
        brk = (f"pi_{T}.f90", f"    procedure(pf{nxt(0, L)}_{T}) :: f", "    external :: f")
    elif shape == "func_result":
        # functions whose result is a procedure pointer declared with the function itself (or the next
        # function of a ring) as interface, and member accesses / ASSOCIATE names based on their calls
        body = [f"module mfr_{T}", "  implicit none", "contains"]
        for i in range(L):
            j = nxt(i, L)
            body += [f"  function nf{i}_{T}(n) result(res)", "    integer :: n",
                     f"    procedure(nf{j}_{T}), pointer :: res", f"    res => nf{j}_{T}", "  end function"]
        body += [f"  function slf_{T}(n) result(r)", "    integer :: n", f"    procedure(slf_{T}), pointer :: r => slf_{T}",
                 "  end function",
                 f"  function nam_{T}(n)", "    integer :: n", f"    procedure(nam_{T}), pointer :: nam_{T}", "  end function",
                 f"  subroutine drv_{T}()", "    integer :: i", f"    i = nf0_{T}(3)%i + slf_{T}(2)%y%z",
                 f"    associate (q_{T} => nf0_{T}(1), w_{T} => slf_{T}(1)%a)", f"      print *, q_{T}%x, w_{T}%b, nam_{T}(1)%c",
                 "    end associate", f"    call nf0_{T}(1)%go()", "  end subroutine", f"end module mfr_{T}"]
        f[f"fr_{T}.f90"] = "\n".join(body) + "\n"
        brk = (f"fr_{T}.f90", f"    procedure(nf{nxt(0, L)}_{T}), pointer :: res", "    integer, pointer :: res")
    elif shape == "pointer_cross":
        for i in range(L):
            j = nxt(i, L)
            f[f"ring{i}_{T}.f90"] = (
                f"module mring{i}_{T}\n  use mring{j}_{T}\n  implicit none\n"
                f"  real, pointer :: rp{i}_{T} => rp{j}_{T}\n"
                f"  procedure(rs{i}_{T}), pointer :: rq{i}_{T} => rq{j}_{T}\ncontains\n"
                f"  subroutine rs{i}_{T}()\n    rp{i}_{T} = rp{j}_{T}\n    call rq{i}_{T}()\n    call rq{j}_{T}()\n"
                f"  end subroutine\nend module mring{i}_{T}\n")
        brk = (f"ring0_{T}.f90", f"  real, pointer :: rp0_{T} => rp{nxt(0, L)}_{T}", f"  real, pointer :: rp0_{T} => null()")
    elif shape == "pointer":
        decl = []
        for i in range(L):
            decl.append(f"  real, pointer :: p{i}_{T} => p{nxt(i, L)}_{T}")
        body = [f"module mp_{T}", "  implicit none"] + decl + [
            f"  type :: tp_{T}", f"    type(tp_{T}), pointer :: nx => nx", f"    procedure(fp_{T}), pointer, nopass :: fp_{T} => fp_{T}",
            "  end type", "contains", f"  subroutine up_{T}()"]
        for i in range(L):
            body.append(f"    p{i}_{T} = p{nxt(i, L)}_{T} + 1.0")
        body += [f"    call fp_{T}()", "  end subroutine", f"  subroutine fp_{T}()", "  end subroutine",
                 f"end module mp_{T}"]
        f[f"p_{T}.f90"] = "\n".join(body) + "\n"
        brk = (f"p_{T}.f90", decl[0], f"  real, pointer :: p0_{T} => null()")
    elif shape == "associate":
        pairs = ", ".join(f"a{i}_{T} => a{nxt(i, L)}_{T}" for i in range(L))
        body = [f"program pa_{T}", "  implicit none", "  real :: r", f"  associate ({pairs})"]
        for i in range(L):
            body.append(f"    r = a{i}_{T} + a{nxt(i, L)}_{T}")
            body.append(f"    a{i}_{T}%x = 1")
        body += ["  end associate", f"  associate (b_{T} => b_{T}%c)", f"    r = b_{T}", "  end associate",
                 f"end program pa_{T}"]
        f[f"a_{T}.f90"] = "\n".join(body) + "\n"
        brk = (f"a_{T}.f90", f"  associate ({pairs})", f"  associate (a0_{T} => r)")
    elif shape == "tbp":
        binds = [f"    procedure :: b{i}_{T} => b{nxt(i, L)}_{T}" for i in range(L)]
        body = [f"module mt_{T}", "  implicit none", f"  type :: tt_{T}", "    integer :: n", "  contains"] + binds + [
            f"    generic :: gg_{T} => gg_{T}, b0_{T}", "  end type", "contains", f"  subroutine use_{T}(o)",
            f"    type(tt_{T}) :: o"]
        for i in range(L):
            body.append(f"    call o%b{i}_{T}()")
        body += [f"    call o%gg_{T}()", "  end subroutine", f"end module mt_{T}"]
        f[f"t_{T}.f90"] = "\n".join(body) + "\n"
        brk = (f"t_{T}.f90", binds[0], f"    procedure :: b0_{T} => use_{T}")
    elif shape == "interface_proc":
        body = [f"module mi_{T}", "  implicit none"]
        for i in range(L):
            body += [f"  interface gi{i}_{T}", f"    module procedure gi{nxt(i, L)}_{T}", "  end interface"]
        body += [f"  procedure(pi_{T}), pointer :: pi_{T} => pi_{T}", "contains", f"  subroutine ci_{T}()"]
        for i in range(L):
            body.append(f"    call gi{i}_{T}(1)")
        body += [f"    call pi_{T}()", "  end subroutine", f"end module mi_{T}"]
        f[f"i_{T}.f90"] = "\n".join(body) + "\n"
        brk = (f"i_{T}.f90", f"    module procedure gi{nxt(0, L)}_{T}", f"    module procedure ci_{T}")
    elif shape == "include":
        for i in range(L):
            j = nxt(i, L)
            f[f"inc{i}_{T}.f90"] = (f"integer :: iv{i}_{T}\ninclude 'inc{j}_{T}.f90'\nreal :: rv{i}_{T}\n")
        f[f"incmain_{T}.f90"] = (f"program pi_{T}\n  implicit none\n  include 'inc0_{T}.f90'\n  iv0_{T} = 1\n"
                                 f"  rv0_{T} = iv{nxt(0, L)}_{T}\nend program\n")
        brk = (f"inc0_{T}.f90", f"include 'inc{nxt(0, L)}_{T}.f90'", "! include removed")
    elif shape == "ppinclude":
        for i in range(L):
            j = nxt(i, L)
            f[f"h{i}_{T}.F90"] = (f"#define H{i}_{T} {i}\n#include \"h{j}_{T}.F90\"\nmodule mh{i}_{T}\n"
                                  f"  integer :: hv{i}_{T} = H{i}_{T} + H{j}_{T}\n#ifdef H{j}_{T}\n  integer :: hw{i}_{T}\n"
                                  f"#endif\nend module\n")
        brk = (f"h0_{T}.F90", f"#include \"h{nxt(0, L)}_{T}.F90\"", "! include removed")
    else:
        raise ValueError(shape)
    return f, brk


def ident_positions(lines, limit, rng):
    pts = []
    for li, ln in enumerate(lines):
        for m in re.finditer(r"[A-Za-z_]\w*", ln):
            pts.append((li, m.start() + (1 if m.end() - m.start() > 1 else 0)))
            pts.append((li, m.end()))
    if len(pts) > limit:
        pts = rng.sample(pts, limit)
    return pts


def gen_sched(g):
    i = g["i"]
    rng = base.rng_for(g)
    combos = [(s, L, c) for s in SHAPES for L in (1, 2, 3, 4) for c in CLOSURES]
    shape, L, closure = combos[i % len(combos)]
    tag = gen.rand_ident(rng, 3)
    files, brk = build(shape, L, tag)
    if rng.random() < 0.4:
        # optional statements are optional: the same shapes without any IMPLICIT statement
        files = {n: "".join(ln for ln in t.splitlines(True) if ln.strip().lower() != "implicit none")
                 for n, t in files.items()}
    limit = rng.choice([500, 1000, 1000, 5000])
    argv = ["--incremental_sync", "--disable_autoupdate", "--recursion_limit", str(limit)]
    if rng.random() < 0.3:
        argv += ["--nthreads", str(rng.randint(1, 4))]
    paths = {n: f"{ROOT}/{n}" for n in files}
    bname, cyc_line, benign = brk
    broken_text = files[bname].replace(cyc_line, benign, 1)
    assert broken_text != files[bname], (shape, L, cyc_line)
    tree = {}
    ops = []
    nid = [0]

    def rid():
        nid[0] += 1
        return nid[0]

    def queries(names, per_file):
        for n in names:
            p = paths[n]
            ops.append(gen.req(rid(), "textDocument/documentSymbol", {"textDocument": {"uri": gen.uri(p)}}))
            lines = model.split_lines(files[n])
            for (li, ch) in ident_positions(lines, per_file, rng):
                m = rng.choice(gen.POSITIONAL_METHODS)
                ops.append(gen.positional(rid(), m, p, li, ch, rng=rng))
        ops.append(gen.req(rid(), "workspace/symbol", {"query": ""}))
        ops.append(gen.req(rid(), "workspace/symbol", {"query": tag}))

    names = sorted(files)
    per_file = 40 if g["tier"] == "quick" else 120
    if closure == "startup":
        tree = {paths[n]: files[n] for n in names}
        ops += [gen.initialize(0), gen.initialized()]
        for n in names:
            ops.append(gen.did_open(paths[n], files[n]))
        queries(names, per_file)
    elif closure == "last_open":
        order = names[:]
        rng.shuffle(order)
        ops += [gen.initialize(0), gen.initialized()]
        for n in order:
            ops.append(gen.env_write(paths[n], files[n]))
            ops.append(gen.did_open(paths[n], files[n]))
        queries(names, per_file)
    elif closure == "edit_save":
        tree = {paths[n]: (broken_text if n == bname else files[n]) for n in names}
        ops += [gen.initialize(0), gen.initialized()]
        order = names[:]
        rng.shuffle(order)
        for n in order:
            ops.append(gen.did_open(paths[n], tree[paths[n]]))
        # close the cycle by an edit (full text when the server is in full sync)
        bl = model.split_lines(broken_text)
        li = next(k for k, ln in enumerate(bl) if ln == benign)
        ch = {"range": {"start": {"line": li, "character": 0}, "end": {"line": li, "character": len(benign)}},
              "text": cyc_line}
        ops.append(gen.did_change(paths[bname], [ch]))
        queries([bname], per_file // 2)
        ops.append(gen.env_write(paths[bname], files[bname]))
        ops.append(gen.did_save(paths[bname]))
        if rng.random() < 0.5:
            other = rng.choice(names)
            ops.append(gen.did_save(paths[other]))
        queries(names, per_file)
    elif closure == "touch_each":
        # all files present at start-up, then each file in turn is re-parsed by a harmless edit
        # (re-linking meets the cycle from a different side each time) and everything is queried
        tree = {paths[n]: files[n] for n in names}
        ops += [gen.initialize(0), gen.initialized()]
        for n in names:
            ops.append(gen.did_open(paths[n], files[n]))
        order = names[:]
        rng.shuffle(order)
        cur = {n: model.split_lines(files[n]) for n in names}
        for n in order:
            last = len(cur[n]) - 1
            ch = {"range": {"start": {"line": last, "character": len(cur[n][last])},
                            "end": {"line": last, "character": len(cur[n][last])}}, "text": "! touched\n"}
            cur[n] = model.apply_change(cur[n], ch)
            ops.append(gen.did_change(paths[n], [ch]))
            queries(names, max(8, per_file // 3))
    else:  # break_reclose
        tree = {paths[n]: files[n] for n in names}
        ops += [gen.initialize(0), gen.initialized()]
        for n in names:
            ops.append(gen.did_open(paths[n], files[n]))
        ops.append(gen.env_write(paths[bname], broken_text))
        ops.append(gen.did_save(paths[bname]))
        queries([bname], per_file // 3)
        ops.append(gen.env_write(paths[bname], files[bname]))
        ops.append(gen.did_save(paths[bname]))
        queries(names, per_file)
    ops += [gen.req(rid(), "shutdown"), gen.note("exit")]
    return {"argv": argv, "tree": tree, "ops": ops, "sync_kind": 2, "strict_edits": True,
            "oracles": ["c20", "c09"], "budget": 3_000_000, "shape": shape, "length": L,
            "closure": closure, "recursion_limit": limit,
            "pool": {"assign": [rng.randrange(4) for _ in range(3)]},
            "order": rng.choice([None, "rev", rng.randint(0, 99)])}


def nontrivial(o):
    return sum(1 for c in o.get("classes", []) if c in ("R", "N")) >= 20
