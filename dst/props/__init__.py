"""Per-property generators and case logic."""
import importlib


def get(prop: str):
    return importlib.import_module(f"dst.props.{prop.lower()}")
