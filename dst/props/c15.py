"""C15 - the start-up index does not depend on workers, enumeration order or hash seed."""
from __future__ import annotations

import hashlib
import itertools
import json

from .. import gen, model
from .. import progmodel as pm
from ..sim import ROOT
from . import base
from .c10 import json_path_diff

ID = "C15"
ENGINE = "startup"
LEVEL = "exploration"
HASHSEEDS = (0, 1, 2, 3)
TECHNIQUE = ("deterministic simulation, differential over schedules: the same generated workspace is "
             "brought up under different SimPool worker counts and task->worker assignments, "
             "directory-listing permutations and interpreter hash seeds, and by starting on an "
             "empty directory and opening the files one at a time in a permuted order; the "
             "normalised answers to one query battery must be identical across all bring-ups")
RULE = ("case = generated workspace (template family: cross-file USE/ONLY/rename, EXTENDS, INCLUDE, "
        "submodule, preprocessed file; files spread over nested directories; unique unit names, "
        "private macro names) x bring-ups {pooled start-up with nthreads 1..16 x assignment x "
        "listing order} + {empty directory, files created and opened one by one in a permutation}, "
        "each executed under 4 hash seeds; for workspaces of <= 3 files the assignments to <= 3 "
        "workers and the listing permutations are enumerated exhaustively. Non-trivial = at least "
        "two different bring-up kinds answered a battery of >= 50 requests; distinct = distinct "
        "digest of (workspace, reference transcript)")
ASSUMPTIONS = [
    "unique top-level unit names and no macro sharing across files (the property's preconditions)",
    "SimPool preserves per-worker submission order like the real shared task queue; the 'spawn' "
    "start method is not simulated",
    "answers compared after sorting what LSP leaves unordered",
]
LEVEL_TEXT = ("Exploration (exhaustive over assignments and listing permutations for tiny "
              "workspaces): the reference is the first bring-up; any disagreeing pair is a "
              "violation and both schedules go into the replay file. Hash seeds are real "
              "PYTHONHASHSEED values of separate worker interpreters.")
LEVEL_NOTE = ("Differential: blind to errors common to all schedules. Trusts SimPool as a faithful "
              "stand-in for multiprocessing.Pool's scheduling freedom (tasks pickled, run in forked "
              "workers, results merged in submission order).")

BATTERY = {"methods": ["definition", "hover", "references", "completion", "signatureHelp",
                       "implementation"], "max_pos_per_file": 30, "resave": True}


def plan(tier):
    return {"cases": 160, "wall_s": 170} if tier == "quick" else {"cases": 6000, "wall_s": 1750}


def nth_perm(items, k):
    items = list(items)
    out = []
    import math

    k %= math.factorial(len(items)) if items else 1
    while items:
        f = math.factorial(len(items) - 1)
        out.append(items.pop(k // f))
        k %= f
    return out


def gen_case(g):
    rng = base.rng_for(g)
    i = g["i"]
    tiny = (i % 5 == 0)
    ws = pm.new_workspace(rng, nmods=rng.randint(1, 2) if tiny else None)
    if tiny:
        # keep at most 3 files
        names = sorted(ws["files"])
        for n in names[3:]:
            del ws["files"][n]
    texts = pm.render_all(ws)
    # spread module files over nested directories (INCLUDE fragments mostly stay next to the program)
    files = {}
    dirs = ["", "a/", "b/", "a/c/"]
    for n, t in texts.items():
        kind = ws["files"][n]["kind"]
        d = "" if kind in ("program", "include") or tiny else rng.choice(dirs)
        if kind == "header" and not tiny:
            # the header lives next to some source of the workspace, not necessarily the one including it
            d = rng.choice(dirs)
        if kind == "include" and not tiny and rng.random() < 0.25:
            # the fragment lives in another source directory than the file that INCLUDEs it by its
            # bare name (whether that resolves or not, it must not depend on how the index was built)
            d = rng.choice(dirs[1:])
        files[d + n] = t
    if not tiny:
        # headers mostly sit next to a preprocessed source - not necessarily the one that includes them
        ppdirs = sorted({n.rsplit("/", 1)[0] + "/" if "/" in n else "" for n in files if n.endswith(".F90")})
        for n in [n for n in files if n.endswith(".h")]:
            if ppdirs and rng.random() < 0.7:
                t = files.pop(n)
                files[rng.choice(ppdirs) + n.rsplit("/", 1)[-1]] = t
    # the files a start-up indexes and a client would open as documents (headers are neither)
    names = sorted(n for n in files if not n.endswith(".h"))
    nfiles = len(names)
    bringups = []
    if tiny and nfiles <= 3:
        for nw in (1, 2, 3):
            for assign in itertools.product(range(nw), repeat=nfiles):
                if nw > 1 and len(set(assign)) < 2 and assign != tuple([0] * nfiles):
                    continue
                bringups.append({"kind": "pool", "nthreads": nw, "assign": list(assign),
                                 "order": {"perm": rng.randrange(6)}})
        for k in range(6):
            bringups.append({"kind": "pool", "nthreads": 2, "assign": [0, 1], "order": {"perm": k}})
        for perm in itertools.permutations(names):
            bringups.append({"kind": "open", "perm": list(perm)})
        if g["tier"] == "quick":
            keep = [bringups[0]] + rng.sample(bringups[1:], min(len(bringups) - 1, 14))
            bringups = keep
    else:
        bringups.append({"kind": "pool", "nthreads": 4, "assign": [], "order": None})
        for _ in range(3 if g["tier"] == "quick" else 8):
            nw = rng.choice([1, 2, 3, 4, 8, 16])
            bringups.append({"kind": "pool", "nthreads": nw,
                             "assign": [rng.randrange(nw) for _ in range(nfiles)],
                             "order": rng.choice(["rev", rng.randint(0, 9999), {"perm": rng.randrange(720)}])})
        for _ in range(2 if g["tier"] == "quick" else 6):
            perm = names[:]
            rng.shuffle(perm)
            bringups.append({"kind": "open", "perm": perm})
    unreadable = None
    if rng.random() < 0.2 and nfiles >= 3:
        # one source file cannot be read at any time (same fault in every bring-up): the index of
        # the *other* files must still not depend on where the bad file sits in the enumeration
        unreadable = rng.choice([n for n in names if ws["files"][n.rsplit("/", 1)[-1]]["kind"] == "module"] or names)
    argv = ["--disable_autoupdate", "--incremental_sync"] + rng.choice(
        [[], [], ["--max_line_length", "100"], ["--sort_keywords"], ["--lowercase_intrinsics"]])
    return {"files": files, "bringups": bringups, "argv": argv, "tiny": tiny, "unreadable": unreadable}


def schedule_for(case, b):
    files = case["files"]
    names = sorted(files)
    paths = {n: f"{ROOT}/{n}" for n in names}
    ops = []
    if b["kind"] == "pool":
        tree = {paths[n]: files[n] for n in names}
        ops += [gen.initialize(0), gen.initialized()]
        argv = case["argv"] + ["--nthreads", str(b["nthreads"])]
        pool = {"assign": b["assign"]}
        order = b["order"]
    else:
        # headers are part of the directory from the start: they are no documents a client opens
        tree = {paths[n]: files[n] for n in names if n.endswith(".h")}
        ops += [gen.initialize(0), gen.initialized()]
        for n in b["perm"]:
            ops.append(gen.env_write(paths[n], files[n]))
            ops.append(gen.did_open(paths[n], files[n]))
        argv = case["argv"]
        pool = {}
        order = None
    # identical tail: open everything (sorted), then the battery with a re-save round
    opened = set(b["perm"]) if b["kind"] == "open" else set()
    for n in names:
        if n not in opened and not n.endswith(".h"):
            ops.append(gen.did_open(paths[n], files[n]))
    ops.append({"k": "obs", "what": "saved"})
    ops.append({"k": "battery", "spec": BATTERY})
    ops += [gen.req(99990, "shutdown"), gen.note("exit")]
    faults = []
    if case.get("unreadable"):
        faults.append({"seam": "open", "path": paths[case["unreadable"]], "kind": "eio", "op": None, "nth": None})
    return {"argv": argv, "tree": tree, "ops": ops, "pool": pool, "order": order, "sync_kind": 2,
            "strict_edits": False, "want_transcript": True, "pipeline": False, "faults": faults,
            "skip_saved_for": [paths[case["unreadable"]]] if case.get("unreadable") else []}


def entry_digests(t):
    return [hashlib.sha1(json.dumps(e, sort_keys=True).encode()).hexdigest()[:8] for e in t]


def exec_case(case, run_fn):
    ref = None
    ref_b = None
    viol = []
    summ = None
    steps = 0
    runs = 0
    fired = []
    allv = []
    for bi, b in enumerate(case["bringups"]):
        r = run_fn(schedule_for(case, b))
        runs += 1
        steps += r.get("steps", 0) + r.get("pool_steps", 0)
        allv += r.get("violations", [])
        if summ is None:
            summ = {k: v for k, v in r.items() if k != "transcript"}
        if r.get("status") != "done":
            summ["status"] = r.get("status")
            summ["error"] = f"bring-up {bi} {b}: {r.get('error')}"
            summ["violations"] = allv
            summ["runs"] = runs
            return summ
        t = r.get("transcript", [])
        if ref is None:
            ref, ref_b = t, b
            continue
        if [e[0] for e in t] != [e[0] for e in ref]:
            summ["status"] = "HARNESS"
            summ["error"] = f"battery labels differ between bring-ups 0 and {bi}"
            summ["runs"] = runs
            return summ
        if t != ref and not viol:
            for (lab, x), (_, y) in zip(ref, t):
                if x != y:
                    meth = lab.split("@")[0].split("?")[0]
                    jp = json_path_diff(x, y) or "?"
                    pair = f"{ref_b['kind']}/{b['kind']}"
                    viol.append({"prop": "C15", "clause": "schedule-dependent-answer",
                                 "site": f"{meth} {jp} [{pair}]",
                                 "detail": f"{lab}: bring-up 0 {json.dumps(ref_b)[:150]} -> "
                                           f"{json.dumps(x)[:400]} ; bring-up {bi} {json.dumps(b)[:150]} -> "
                                           f"{json.dumps(y)[:400]}",
                                 "op": -1, "coarse": f"diff:{pair}:{meth}", "bringup": bi})
                    break
    summ["violations"] = allv + viol
    summ["runs"] = runs
    summ["steps"] = steps
    summ["pool_steps"] = 0
    summ["ref_digests"] = entry_digests(ref or [])
    summ["ref_labels_digest"] = hashlib.sha1(json.dumps([e[0] for e in ref or []]).encode()).hexdigest()
    summ["digest"] = hashlib.sha256(json.dumps([sorted(case["files"].items()), summ["ref_digests"]]).encode()).hexdigest()
    summ["sample"] = {"files": sorted(case["files"]), "bringups": case["bringups"][:6],
                      "n_bringups": len(case["bringups"]), "battery_requests": len(ref or [])}
    summ["reach"] = dict(summ.get("reach", {}), bringups=len(case["bringups"]),
                         battery_requests=len(ref or []),
                         kinds=len({b["kind"] for b in case["bringups"]}))
    summ["ref_labels"] = [e[0] for e in (ref or [])] if case.get("want_labels") else None
    return summ


def shrink_case(case, sig, runner, budget_s):
    """keep the reference bring-up and the first one that disagrees"""
    for bi in range(1, len(case["bringups"])):
        c = dict(case)
        c["bringups"] = [case["bringups"][0], case["bringups"][bi]]
        r = runner(c)
        from .. import shrink as _s

        if _s.has_sig(r, sig):
            return c
    return case


class Case(base.CaseInWorker):
    """runs the case under every hash seed and compares the reference transcripts"""

    def run_case(self, ctx, i):
        gen_ = {"prop": ID, "tier": ctx.tier, "seed": ctx.seed, "i": i}
        outs = []
        for h in HASHSEEDS:
            summ = ctx.farm.run({"t": "case", "prop": ID, "gen": gen_, "echo_case": i < 2}, h)
            outs.append((h, summ))
        return self._merge(i, outs, gen_)

    def _merge(self, i, outs, gen_=None, case=None):
        h0, s0 = outs[0]
        merged = dict(s0)
        merged["violations"] = []
        seen = set()
        for h, s in outs:
            for v in s.get("violations", []):
                key = (v["prop"], v["clause"], v["site"])
                if key not in seen:
                    seen.add(key)
                    merged["violations"].append(v)
            if s.get("status") != "done" and merged.get("status") == "done":
                merged["status"] = s.get("status")
                merged["error"] = s.get("error")
        merged["runs"] = sum(s.get("runs", 0) for _, s in outs)
        merged["steps"] = sum(s.get("steps", 0) for _, s in outs)
        if all(s.get("status") == "done" for _, s in outs):
            for h, s in outs[1:]:
                if s.get("ref_digests") != s0.get("ref_digests"):
                    a, b = s0.get("ref_digests") or [], s.get("ref_digests") or []
                    k = next((j for j in range(min(len(a), len(b))) if a[j] != b[j]), min(len(a), len(b)))
                    merged["violations"].append({
                        "prop": "C15", "clause": "hash-seed-dependent-answer",
                        "site": f"battery entry {k}", "detail":
                        f"reference transcripts differ between PYTHONHASHSEED={h0} and {h} at entry {k}",
                        "op": -1, "coarse": "diff:hashseed"})
                    break
        out = self._outcome(i, merged, h0, gen=gen_, case=case if case is not None else s0.get("case"))
        out["hashseeds"] = [h for h, _ in outs]
        return out

    def replay(self, ctx, obj):
        outs = []
        for h in obj.get("hashseeds") or HASHSEEDS:
            outs.append((h, ctx.farm.run({"t": "case", "prop": ID, "case": obj["case_obj"]}, h)))
        return self._merge(obj.get("case", -1), outs, case=obj["case_obj"])

    def unminimised(self, o):
        return {"hashseed": o["hashseed"], "hashseeds": list(HASHSEEDS), "case_obj": o.get("case")}

    def minimise(self, ctx, outcome, sig, budget_s):
        case = outcome.get("case")
        if case is None:
            summ = ctx.farm.run({"t": "case", "prop": ID, "gen": outcome["gen"], "echo_case": True},
                                outcome["hashseed"])
            case = summ.get("case")
            outcome["case"] = case
        if sig[1] == "schedule-dependent-answer":
            for h in HASHSEEDS:
                def runner(c, h=h):
                    return ctx.farm.run({"t": "case", "prop": ID, "case": c}, h)

                small = shrink_case(case, sig, runner, budget_s)
                if small is not case:
                    return {"hashseed": h, "hashseeds": [h], "case_obj": small}
        return {"hashseed": outcome["hashseed"], "hashseeds": list(HASHSEEDS), "case_obj": case}


def nontrivial(o):
    r = o.get("reach") or {}
    return o["status"] == "done" and r.get("kinds", 0) >= 2 and r.get("battery_requests", 0) >= 50


import sys as _sys  # noqa: E402

CASE = Case(_sys.modules[__name__])
