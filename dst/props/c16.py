"""C16 - wire framing is byte-exact in both directions (fault enumeration)."""
from __future__ import annotations

import os

from .. import frames, gen
from ..sim import CANON, ROOT
from . import base

ID = "C16"
LEVEL = "fault_enumeration"
TECHNIQUE = ("deterministic simulation: independent LSP frame writer/reader around the real "
             "server loop; enumerated chunk splits of the inbound byte stream, header orders, "
             "UTF-8/escaped payloads, seeded multi-chunk schedules; URI round trips")
RULE = ("case = one session byte stream x one delivery schedule. Enumerated: every single split "
        "point of a fixed 5-message stream (all header styles x raw/escaped payload), pairs of "
        "splits around header/body boundaries in thorough; seeded: generated sessions with "
        "non-ASCII workspaces, random chunk lists (incl. 1-byte delivery), pipelining. "
        "Non-trivial = at least one split fell strictly inside a frame (header, body or a "
        "multi-byte character) or the payload/paths carried non-ASCII; distinct = distinct "
        "(event log, output) digest together with the delivery schedule")
ASSUMPTIONS = [
    "the inbound stream is always correctly framed (the property's precondition); malformed "
    "framing is never generated",
    "in-process observation of the dicts given to LangServer.handle (the property's own anchor)",
    "TCP transport (TCPReadWriter) is not exercised; real pipes only in the stub cross-check",
]
EXHAUSTIVE = False
LEVEL_TEXT = ("Fault enumeration over delivery schedules: every single split point (and, in the "
              "thorough tier, every pair of splits near header/body boundaries) of a fixed "
              "multi-message stream in 4 header styles x raw/escaped UTF-8 is executed against the "
              "real read loop, plus seeded chunk lists, pipelining and buffer sizes over generated "
              "sessions; all server output of every run is decoded by an independent strict reader. "
              "Enumeration is complete within the stated stream; beyond it the claim is sampling.")
LEVEL_NOTE = ("Trusts the independent codec in dst/frames.py (RFC 3986 / LSP base protocol, ~200 "
              "lines) and CPython's io.BufferedReader over the simulated raw stream as a faithful "
              "stand-in for a pipe; TCP transport not covered.")

FIXED_PATH = ROOT + "/dïr/mö d#1%.f90"


def fixed_session(hdr, esc):
    """5 messages, no initialize needed: the loop answers null for unknown documents"""
    u = gen.uri(FIXED_PATH)
    ops = [
        gen.req(1, "textDocument/hover", {"textDocument": {"uri": u},
                                          "position": {"line": 0, "character": 0}}),
        gen.note("textDocument/didChange", {"textDocument": {"uri": u, "version": 2},
                                            "contentChanges": [{"text": "x = 'é→中' ! \U0001F600"}]}),
        gen.req("id-ü", "no/such/method", {"s": "λ\n\t\"q\"\\", "n": [1, 2.5, None, True]}),
        gen.req(3, "workspace/symbol", {"query": "ß"}),
        gen.note("exit"),
    ]
    for o in ops:
        o["hdr"] = hdr
        o["esc"] = esc
    return ops


def stream_len(ops):
    return sum(len(frames.encode_frame(o["m"], o["hdr"], o["esc"])) for o in ops)


def boundaries(ops):
    """absolute offsets of header/body and message boundaries"""
    out = []
    off = 0
    for o in ops:
        b = frames.encode_frame(o["m"], o["hdr"], o["esc"])
        h = b.index(b"\r\n\r\n")
        out += [off + h, off + h + 2, off + h + 4, off + len(b)]
        off += len(b)
    return out


VARIANTS = [(h, e) for h in frames.HDR_STYLES for e in (False, True)]


def enum_layout():
    """(variant index, list of chunk sizes) for the enumerated part"""
    lay = []
    for vi, (h, e) in enumerate(VARIANTS):
        L = stream_len(fixed_session(h, e))
        lay.append((vi, None))  # one chunk
        lay.append((vi, [1]))  # byte by byte
        for s in range(1, L):
            lay.append((vi, [s, 1 << 20]))
    return lay


_LAYOUT = None


def layout():
    global _LAYOUT
    if _LAYOUT is None:
        _LAYOUT = enum_layout()
    return _LAYOUT


def pair_layout(tier):
    out = []
    for vi, (h, e) in enumerate(VARIANTS):
        ops = fixed_session(h, e)
        L = stream_len(ops)
        bs = boundaries(ops)
        near = sorted({b + d for b in bs for d in (-2, -1, 0, 1, 2) if 0 < b + d < L})
        for a in near:
            for b in (near if tier == "thorough" else near[:: 7]):
                if a < b:
                    out.append((vi, [a, b - a, 1 << 20]))
    return out


def plan(tier):
    n_enum = len(layout())
    n_pairs = len(pair_layout(tier))
    if tier == "quick":
        return {"cases": n_enum + min(n_pairs, 1500) + 1200, "wall_s": 150}
    return {"cases": n_enum + n_pairs + 40000, "wall_s": 1500}


def gen_sched(g):
    i = g["i"]
    tier = g["tier"]
    lay = layout()
    if i < len(lay):
        vi, chunks = lay[i]
        h, e = VARIANTS[vi]
        return {"argv": [], "ops": fixed_session(h, e), "chunks": chunks, "pipeline": True,
                "kind": "enum1", "variant": vi}
    i2 = i - len(lay)
    pl = pair_layout(tier)
    if tier == "quick":
        pl = pl[: 1500]
    if i2 < len(pl):
        vi, chunks = pl[i2]
        h, e = VARIANTS[vi]
        return {"argv": [], "ops": fixed_session(h, e), "chunks": chunks, "pipeline": True,
                "kind": "enum2", "variant": vi}
    return seeded(g)


def weird_name(rng):
    parts = ["a", "b c", "x#y", "100%", "q?r", "p+p", "é", "中文", "ü_ö", "λ", "t~", "[z]", "&amp",
             "semi;colon", "eq=", "at@", "comma,", "quote'", "Ж",
             # names that Unicode normalisation (NFC/NFD/NFKC) or case folding would rewrite:
             # decomposed accents, Angstrom/Ohm/Kelvin signs, ligature, full-width, dotted I, jamo
             "cafe\u0301", "\u212b", "\u2126m", "\u212a", "\ufb01", "\uff21", "\u0130", "\u1112\u1161\u11ab",
             "\U0001F600", "A\u030a"]
    return "".join(rng.choice(parts) for _ in range(rng.randint(1, 3)))


def seeded(g):
    rng = base.rng_for(g)
    tag = gen.rand_ident(rng, 4)
    d1 = weird_name(rng)
    f1 = weird_name(rng) + rng.choice([".f90", ".F90", ".f", ".f08"])
    twin_name = None
    tk = rng.random()
    if tk < 0.1:
        # two files whose names differ only by what an over-eager URI/path conversion would erase: a
        # literal percent escape vs its decoded form, '+' vs blank, decomposed vs precomposed accent
        suf = rng.choice([".f90", ".F90"])
        f1, twin_name = rng.choice([("my%20mod" + tag + suf, "my mod" + tag + suf),
                                    ("a+b" + tag + suf, "a b" + tag + suf),
                                    ("cafe\u0301" + tag + suf, "caf\u00e9" + tag + suf),
                                    ("x%2Fy" + tag + suf, "x%252Fy" + tag + suf),
                                    ("p%41" + tag + suf, "pA" + tag + suf)])
    path = f"{ROOT}/{d1}/{f1}"
    src = gen.small_program(rng, tag, nonascii=True)
    big_line = None
    if rng.random() < 0.35:
        # a response well beyond one pipe buffer / write chunk whose byte length and character
        # length differ a lot: long non-ASCII documentation echoed by hover and completion
        unit = rng.choice(["αβγδε ", "日本語の説明", "größe µm ", "Жук ", "é→λ "])
        n = rng.choice([1500, 3000, 4300, 9000, 20000]) // len(unit) + 1
        doc = (unit * n).strip()
        sl = src.split("\n")
        k = next(j for j, ln in enumerate(sl) if ln.strip().startswith("real ::"))
        sl.insert(k, "  !> " + doc)
        src = "\n".join(sl)
        big_line = k + 1
    tree = {path: src}
    style = rng.choice(["min", "lower", "over"])
    u = frames.uri_encode(path, style)
    twin = None
    if twin_name is not None:
        twin = f"{ROOT}/{d1}/{twin_name}"
        tree[twin] = gen.small_program(rng, tag + "tw")
    elif rng.random() < 0.3 and f1.swapcase() != f1:
        # a second document whose path differs only in letter case (POSIX paths are case-sensitive)
        twin = f"{ROOT}/{d1}/{f1.swapcase()}"
        tree[twin] = gen.small_program(rng, tag + "tw")
    nid = [10]

    def rid():
        nid[0] += 1
        return rng.choice([nid[0], f"s{nid[0]}", f"ü{nid[0]}"])

    lines = src.split("\n")
    ops = [gen.initialize(1, by=rng.choice(["rootPath", "rootUri", "both"]),
                          extra={"processId": rng.choice([None, os.getppid() if False else 1]),
                                 "capabilities": rng.choice([{}, gen.FULL_CAPABILITIES])}), gen.initialized(),
           gen.note("textDocument/didOpen", {"textDocument": {"uri": u, "text": src}})]
    ops.append(gen.req(rid(), "textDocument/documentSymbol", {"textDocument": {"uri": u}}))
    if twin is not None:
        ut = frames.uri_encode(twin, style)
        seq = [ut, u, ut] if rng.random() < 0.5 else [ut, ut, u]
        for x in seq:
            ops.append(gen.req(rid(), "textDocument/documentSymbol", {"textDocument": {"uri": x}}))
    if big_line is not None:
        col = lines[big_line].index("::") + 4
        for meth in ("textDocument/hover", "textDocument/completion"):
            ops.append(gen.req(rid(), meth, {"textDocument": {"uri": u},
                                             "position": {"line": big_line, "character": col}}))
    for _ in range(rng.randint(3, 10)):
        li = rng.randrange(len(lines))
        ch = rng.randint(0, len(lines[li]))
        meth = rng.choice(["textDocument/hover", "textDocument/definition",
                           "textDocument/completion", "textDocument/references",
                           "textDocument/signatureHelp"])
        p = {"textDocument": {"uri": u}, "position": {"line": li, "character": ch}}
        if meth.endswith("references"):
            p["context"] = {"includeDeclaration": True}
        ops.append(gen.req(rid(), meth, p))
        if rng.random() < 0.25:
            ops.append(gen.req(rid(), rng.choice(["x/y", "$/ünknown", "workspace/executeCommand"]),
                               {"blob": "".join(rng.choice(gen.NONASCII + gen.ASTRAL + ["a", "\"", "\\", "\n"])
                                                for _ in range(rng.randint(0, 20)))}))
        if rng.random() < 0.2:
            other = f"{ROOT}/{weird_name(rng)}.f90"
            ops.append(gen.note("textDocument/didChange", {
                "textDocument": {"uri": frames.uri_encode(other, style)},
                "contentChanges": [{"text": "x"}]}))
    force_esc = set()
    if rng.random() < 0.3:
        # text that only an editor buffer can carry (never a file read with errors="replace"): lone
        # surrogates, NUL, separators, non-BMP - in a documentation comment that hover and
        # completion echo back
        w = rng.choice(["\ud83d", "a\udc00b", "\udfff\ud800", "\x00", "\u2028\u2029", "\U0001F600\ud83d", "\x7f\x1b[0m",
                        "\ufffe\uffff"])
        sl = src.split("\n")
        k = next(j for j, ln in enumerate(sl) if ln.strip().startswith("real ::"))
        sl.insert(k, "  !> doc " + w + " end")
        ops.append(gen.note("textDocument/didChange", {"textDocument": {"uri": u, "version": 2},
                                                       "contentChanges": [{"text": "\n".join(sl)}]}))
        force_esc.add(len(ops) - 1)
        col = sl[k + 1].index("::") + 4
        for meth in ("textDocument/hover", "textDocument/completion", "textDocument/hover"):
            ops.append(gen.req(rid(), meth, {"textDocument": {"uri": u},
                                             "position": {"line": k + 1, "character": col}}))
        ops.append(gen.req(rid(), "textDocument/documentSymbol", {"textDocument": {"uri": u}}))
    if twin_name is not None and rng.random() < 0.7:
        # the first of the two files disappears while the editor still has it open; what is said
        # about its URI afterwards must not be about the twin
        ops.append(gen.env_delete(path))
        if rng.random() < 0.5:
            ops.append(gen.note("textDocument/didClose", {"textDocument": {"uri": u}}))
        ops.append(gen.req(rid(), "textDocument/documentSymbol", {"textDocument": {"uri": u}}))
        ops.append(gen.req(rid(), "textDocument/hover", {"textDocument": {"uri": u},
                                                         "position": {"line": 1, "character": 3}}))
    ops.append(gen.req(rid(), "workspace/symbol", {"query": ""}))
    ops.append({"k": "obs", "what": "uri_roundtrip",
                "paths": [path, f"{ROOT}/{weird_name(rng)}/{weird_name(rng)}.f90", f"{CANON}/o t/%41.f90"]})
    ops += [gen.req(rid(), "shutdown"), gen.note("exit")]
    for j, o in enumerate(ops):
        if o["k"] == "msg":
            o["hdr"] = rng.choice(frames.HDR_STYLES)
            o["esc"] = rng.random() < 0.4 or j in force_esc
            if rng.random() < 0.25:
                o["sync"] = True  # the client writes a burst up to here, then waits for the answers
    r = rng.random()
    if r < 0.15:
        chunks = [1]
    elif r < 0.3:
        chunks = None
    else:
        chunks = [rng.choice([1, 2, 3, 5, 8, 13, 40, 200, 1000, 5000]) for _ in range(rng.randint(1, 12))]
    return {"argv": rng.choice([[], ["--incremental_sync"], ["--notify_init"]]), "tree": tree,
            "ops": ops, "chunks": chunks, "pipeline": rng.random() < 0.7, "kind": "seeded",
            "bufsize": rng.choice([8192, 8192, 16, 64, 1024]), "oracles": ["c16uri"],
            "strict_edits": False}


def nontrivial(o):
    r = o.get("reach") or {}
    return r.get("split_inside_frame", 0) > 0 or r.get("chunk_inside_utf8", 0) > 0


def key(o):
    return o["digest"] + ":" + o.get("sched_digest", "")


def extra_evidence(outcomes):
    by_variant = {}
    for o in outcomes:
        s = o.get("sched")
    return {"enumerated_single_splits": len(layout()),
            "header_styles": list(frames.HDR_STYLES)}
