"""C03 - indexing is total and terminates on every document text (fault enumeration)."""
from __future__ import annotations

from .. import gen, model
from ..sim import ROOT
from . import base

ID = "C03"
LEVEL = "fault_enumeration"
TECHNIQUE = ("deterministic simulation with fault injection: torn/truncated/corrupted writes at "
             "enumerated crash points (every line boundary, seeded byte offsets) and simulated "
             "typing sessions against the real indexer (pool start-up, didOpen, didChange, didSave); "
             "oracle: no parse failure, queryable index, no stale version (sentinels), step budget")
RULE = ("case = base text (every sample source, generated programs; free/fixed form; plain and "
        "preprocessed suffix) x one fault scenario: (prefix) the file cut at an enumerated line "
        "boundary or seeded byte offset, indexed at start-up through the pool, re-opened, replaced "
        "and saved with further cuts; (typing) the text typed from empty or into the middle of a "
        "program in token/line/character chunks with a re-index at every step; (corrupt) byte "
        "flips, NUL, dropped/duplicated/swapped lines, inserted keyword statements and hostile "
        "macro bodies. Non-trivial = the indexer ran on at least 3 distinct texts in the run; "
        "distinct = distinct digest of event log and output")
ASSUMPTIONS = [
    "arbitrary strings are reached only through these faults plus a small random-token generator "
    "(the stated limit of the claim)",
    "bounded time = 2e7 interpreter steps per operation plus a 120 s wall-clock backstop for time "
    "spent inside C code (regex backtracking), confirmed by replay before being reported",
    "sentinel unit names carry a per-run tag the mutation alphabet cannot synthesise",
]
LEVEL_TEXT = ("Fault enumeration: within each base text every line-boundary crash point is executed "
              "(thorough tier: all sample sources completely), plus seeded byte offsets, typing "
              "granularities and corruption operators. Each indexing operation is judged on the "
              "wire (no failure message, documentSymbol answers, no older sentinel version served) "
              "and by the step clock.")
LEVEL_NOTE = ("The space of all strings is sampled only through truncation, typing and small "
              "mutations of valid programs, as the property's quantifier emphasises; the step "
              "clock cannot pre-empt C code, which is covered by the wall-clock backstop.")

KEYWORD_LINES = [
    "procedure :: p", "PROCEDURE, pass :: q => r", "contains", "CONTAINS", "end", "END", "end do",
    "end module", "end type", "#define X \\", "#define Y(a,b) a##b \\", "#if", "#if X > 1", "#ifdef",
    "#else", "#endif", "#elif defined(Z)", "#include \"nope.h\"", "#undef X", "implicit none",
    "IMPLICIT", "&", "  &", "& &", "use", "use ,", "use :: m, only:", "import", "import ::",
    "interface", "end interface", "type", "type ::", "type, extends() :: t", "module", "module procedure",
    "submodule", "submodule (a:b", "function", "subroutine", "subroutine s(", "integer ::", "integer",
    "real(kind=", "character(len=*), parameter :: c = 'unterminated", "x = \"", "select type", "select case (",
    "associate (a =>", "associate", "block", "do", "do 10 i=1", "10 continue", "if (", "if (x) then", "else",
    "where (", "forall (", "enum, bind(c)", "enumerator", "private", "public ::", "generic :: g =>",
    "final ::", "class(*), pointer ::", "!$omp parallel", "!>", "!!", "!<", ";", ";;", "a;b;c", "include",
    "include 'x", "#define A(", "#define B(x", "#define C \\\\", "#define D \\d\\1\\g<0>", "#define E (?P<n>",
    "#define F [", "#define G *", "#if defined(", "#if (", "#if 1/0", "#if !", "#if A B",
    "type(", "class(", "end function f g", "end subroutine 1", "entry e", "data x /", "common /c/",
    "namelist /n/", "equivalence (", "external", "intrinsic", "parameter (", "save", "volatile",
    "procedure(", "procedure() ::", "abstract interface", "module function", "module subroutine",
    "end submodule", "end program", "program", "critical", "end critical", "change team", "sync all",
]


# half-typed lists in every statement that carries one
_LIST_TEMPLATES = ["associate ({L})", "use m, only: {L}", "integer :: {L}", "public :: {L}", "import :: {L}",
                   "procedure :: {L}", "generic :: g => {L}", "call s({L})", "type(t({L})) :: v", "namelist /n/ {L}",
                   "common /c/ {L}", "enumerator :: {L}", "final :: {L}", "select case ({L})", "subroutine s({L})",
                   "function f({L}) result(r)", "interface operator({L})", "data {L} /1/", "external {L}",
                   "real, dimension({L}) :: x", "#define M({L}) 1", "x = M({L})", "allocate({L})", "print *, {L}",
                   "type, extends({L}) :: t", "submodule ({L}) s", "module procedure {L}", "do concurrent ({L})"]
_LIST_FORMS = ["", ",", ", a", "a,", "a,,b", ", a => b", "a => b,", "a =>", "=> b", "(", ")", "a => b, , c => d",
               "a(,)", ",,", "a b"]
KEYWORD_LINES += [t.replace("{L}", f) for t in _LIST_TEMPLATES for f in _LIST_FORMS]
# tokens beyond every built-in size limit (CPython refuses int() of more than 4300 digits)
_HUGE = "9" * 4400
KEYWORD_LINES += [f"do {_HUGE} i = 1, 2", f"{_HUGE} continue", f"      do {_HUGE} k=1,3", f"goto {_HUGE}", f"x = {_HUGE}",
                  f"integer(kind={_HUGE}) :: hk", f"real :: a({_HUGE})", f"#if {_HUGE} > 1", f"#define BIG {_HUGE}",
                  f"character(len={_HUGE}) :: s", f"{_HUGE} format (i4)", f"x = 1.0e{_HUGE}", f"x = {_HUGE}_8",
                  "x = '" + "q" * 70000 + "'", "! " + "c" * 70000, "call s(" + ", ".join(["a"] * 3000) + ")"]


def plan(tier):
    n_enum = sum(len(model.split_lines(t)) for _, t in gen.corpus_sources())
    if tier == "quick":
        return {"cases": 2600, "wall_s": 150}
    return {"cases": n_enum + 60000, "wall_s": 1700}


def enum_table():
    tab = []
    for rel, text in gen.corpus_sources():
        n = len(model.split_lines(text))
        for j in range(n):
            tab.append((rel, j))
    return tab


_TAB = None


def table():
    global _TAB
    if _TAB is None:
        _TAB = enum_table()
    return _TAB


def sentinel(tag, fid, ver, fixed):
    ind = "      " if fixed else ""
    return f"{ind}module {tag}_{fid}_v{ver}\n{ind}end module {tag}_{fid}_v{ver}\n"


def is_fixed_name(name):
    return name.lower().endswith((".f", ".for", ".f77"))


def cut_text(rng, text, mode):
    if mode == "line":
        ls = text.split("\n")
        j = rng.randrange(len(ls) + 1)
        return "\n".join(ls[:j]) + ("\n" if j and rng.random() < 0.8 else "")
    b = text.encode("utf-8", "replace")
    j = rng.randint(0, len(b))
    return b[:j]


FOLD_TWINS = {"i": "\u0130\u0131", "I": "\u0130\u0131", "s": "\u017f", "S": "\u017f", "k": "\u212a", "K": "\u212a"}


def corrupt(rng, text):
    ls = text.split("\n")
    if rng.random() < 0.08 and text:
        # a letter replaced by a character that case-insensitive matching takes for it but that
        # upper()/lower() map elsewhere (dotted I, dotless i, long s, Kelvin sign)
        for _ in range(rng.randint(1, 3)):
            pos = [j for j, c in enumerate(text) if c in FOLD_TWINS]
            if pos:
                j = rng.choice(pos)
                text = text[:j] + rng.choice(FOLD_TWINS[text[j]]) + text[j + 1:]
        return text
    if rng.random() < 0.1 and text:
        # half-typed lists: a name deleted (leaving ', ,' '(,' '=> )' '::' without entity ...), a
        # separator doubled, an opening or closing bracket dropped
        import re as _re

        for _ in range(rng.randint(1, 2)):
            j = rng.randrange(len(ls))
            toks = list(_re.finditer(r"[A-Za-z_]\w*|[(),]|=>|::", ls[j]))
            if not toks:
                continue
            t = rng.choice(toks)
            if rng.random() < 0.7:
                ls[j] = ls[j][:t.start()] + ls[j][t.end():]
            else:
                ls[j] = ls[j][:t.end()] + t.group(0) + ls[j][t.end():]
        return "\n".join(ls)
    if rng.random() < 0.05 and text:
        # what only an editor buffer can hold: half of a surrogate pair (a client cut an emoji in two)
        j = rng.randrange(len(text) + 1)
        return text[:j] + rng.choice(["\ud83d", "\udc00", "\udfff\ud800"]) + text[j:]
    r = rng.random()
    if r < 0.15 and text:
        b = bytearray(text.encode("utf-8", "replace"))
        j = rng.randrange(len(b))
        b[j] ^= 1 << rng.randrange(8)
        return bytes(b)
    if r < 0.22 and text:
        j = rng.randrange(len(text))
        return text[:j] + "\x00" + text[j:]
    if r < 0.32 and len(ls) > 1:
        j = rng.randrange(len(ls))
        del ls[j]
    elif r < 0.42 and ls:
        j = rng.randrange(len(ls))
        ls.insert(j, ls[j])
    elif r < 0.5 and len(ls) > 1:
        j = rng.randrange(len(ls) - 1)
        ls[j], ls[j + 1] = ls[j + 1], ls[j]
    elif r < 0.9:
        for _ in range(rng.randint(1, 3)):
            j = rng.randrange(len(ls) + 1)
            kw = rng.choice(KEYWORD_LINES)
            if rng.random() < 0.3:
                kw = " " * rng.choice([1, 2, 6, 7]) + kw
            ls.insert(j, kw)
    else:
        j = rng.randrange(len(ls) + 1)
        ls.insert(j, gen.rand_line(rng, 0.3))
    if rng.random() < 0.1:
        return "\r".join(ls)
    return "\n".join(ls)


def pp_storm(rng):
    """a preprocessor-heavy text: define / redefine / undef object- and function-like macros over a
    tiny name alphabet, conditionals that use them, and code lines that expand them"""
    names = ["A", "B", "C", "X", "GE", "MAXV"]
    args = ["a", "b", "n"]
    bodies = ["1", "2", "0", "", "B", "A", "C + 1", "(a>=b)", "a+1", "a##b", "X", "\\d", "\"q\"", "'s'",
              "(", "a,b", "A(1)", "GE(a,1)", "type(t)", "1 \\", "defined(A)", "!A", "__LINE__"]
    conds = ["{n}", "{n}(3,2)", "defined({n})", "defined {n}", "!defined({n})", "{n} > 1", "{n} == {m}",
             "!{n}", "{n} && {m}", "{n} || defined({m})", "({n}", "{n} ==", "{n}(1", "{n}()", "1", "0",
             "{n}({m})", "{n} + {m}(2) > 3", "-{n}", "{n} {m}",
             # conditions whose evaluation overflows, exhausts memory or the stack
             "1" + "0" * 400 + " / 3 > {n}", "1" + "0" * 320 + ".0 * 10 > 1", "2 ** 2 ** 2 ** 2 ** 2 ** 2 > {n}",
             "\"x\" * 99999999999999999999", "{n} << 9999999999", " + ".join(["1"] * 1200) + " > {n}",
             "(" * 300 + "{n}" + ")" * 300, " && ".join(["{n}"] * 900), "1 / 0", "1 % 0", "{n} / ({m} - {m})",
             "-" * 2000 + "1", "!" * 1500 + "{n}"]
    ls = []
    depth = 0
    for _ in range(rng.randint(6, 30)):
        r = rng.random()
        n, m = rng.choice(names), rng.choice(names)
        if r < 0.22:
            ls.append(f"#define {n} {rng.choice(bodies)}")
        elif r < 0.36:
            k = rng.randint(0, 2)
            ls.append(f"#define {n}({','.join(args[:k])}) {rng.choice(bodies)}")
        elif r < 0.42:
            ls.append(f"#undef {n}")
        elif r < 0.46:
            ls.append(f"#include \"{rng.choice(names)}.h\"")
        elif r < 0.58:
            ls.append(rng.choice(["#if ", "#if ", "#elif "]) + rng.choice(conds).format(n=n, m=m))
            depth += 1
        elif r < 0.64:
            ls.append(rng.choice([f"#ifdef {n}", f"#ifndef {n}"]))
            depth += 1
        elif r < 0.70:
            ls.append("#else")
        elif r < 0.78:
            ls.append("#endif")
            depth -= 1
        elif r < 0.9:
            ls.append(rng.choice([f"  integer :: v_{n.lower()} = {n}", f"  x = {n}(1, 2) + {m}", f"  call s({n}, {m}(3))",
                                  f"module m_{n.lower()}", f"end module m_{n.lower()}", f"  real :: {n}", f"  y = {n}",
                                  f"  print *, '{n}', {n}"]))
        else:
            ls.append(rng.choice(["", "  \\", "! c", f"#include \"{n}.h\"", f"#include \"{m}.h\"", "#define", "#if",
                                  "#undef"]))
    for _ in range(max(0, depth) if rng.random() < 0.7 else 0):
        ls.append("#endif")
    if rng.random() < 0.3:
        # macros that (directly or mutually) refer to themselves, and a line that uses them
        cyc = rng.sample(["P", "Q", "R", "S"], rng.randint(1, 3))
        at = rng.randrange(len(ls) + 1)
        extra = []
        for k, c in enumerate(cyc):
            nx = cyc[(k + 1) % len(cyc)]
            if rng.random() < 0.5:
                extra.append(f"#define {c} {nx}" + rng.choice(["", " + 1", f" {nx}", "(1)"]))
            else:
                extra.append(f"#define {c}(a) {nx}(a{rng.choice(['', '+1', ',a'])})")
        extra.append(rng.choice([f"  x = {cyc[0]}", f"  y = {cyc[0]}(2)", f"#if {cyc[0]}", f"  z = {cyc[-1]} + {cyc[0]}(3)"]))
        ls[at:at] = extra
    return "\n".join(ls) + "\n"


LIFE_EVENTS = ["#define M 1", "#define M 2", "#define M(a) a+1", "#define M(a,b) a", "#undef M", "  x = M", "  y = M(2)",
               "  z = M(1, 3) + M", "#if M", "#ifdef M", "#if M(1) > 1", "#endif", "#else", '#include "L.h"',
               '#include "L.h"', "#define N M", "  w = N", "#define M N"]


def pp_lifecycle(rng, header=False):
    """the life of ONE macro name told in short random event sequences, in a document and in the
    header it includes: defined as object, as function, undefined, used in both ways, tested"""
    ev = [rng.choice(LIFE_EVENTS) for _ in range(rng.randint(2, 6) if header else rng.randint(4, 10))]
    if header:
        return "\n".join(ev) + "\n"
    return "module life_m\n" + "\n".join(ev) + "\nend module life_m\n"


def pick_base(rng):
    if rng.random() < 0.12:
        return gen.rand_ident(rng, 3) + rng.choice([".F90", ".F90", ".F", ".fpp"]), pp_lifecycle(rng)
    if rng.random() < 0.2:
        return gen.rand_ident(rng, 3) + rng.choice([".F90", ".F90", ".F", ".fpp", ".F08"]), pp_storm(rng)
    if rng.random() < 0.7:
        rel, text = rng.choice(gen.corpus_sources())
        name = rel.replace("/", "_")
    else:
        tag = gen.rand_ident(rng, 3)
        text = gen.small_program(rng, tag)
        name = tag + rng.choice([".f90", ".F90", ".f08"])
    if rng.random() < 0.25:  # preprocessed twin of a plain file / plain twin of a preprocessed one
        stem, ext = name.rsplit(".", 1)
        name = stem + "." + (ext.upper() if ext.islower() else ext.lower())
    return name, text


class Builder:
    def __init__(self, rng, name, tag):
        self.rng = rng
        self.name = name
        self.path = f"{ROOT}/{name}"
        self.tag = tag
        self.fid = "f0"
        self.fixed = is_fixed_name(name)
        self.ver = 0
        self.ops = []
        self.versions = {}
        self.nid = 0
        self.ntexts = 0

    def rid(self):
        self.nid += 1
        return self.nid

    def body(self, content):
        """sentinel + content (content may be bytes for mid-character cuts)"""
        self.ver += 1
        self.ntexts += 1
        s = sentinel(self.tag, self.fid, self.ver, self.fixed)
        if isinstance(content, bytes):
            return s.encode("utf-8", "replace") + content
        return s + content

    def mark(self):
        self.versions[str(len(self.ops))] = {self.fid: self.ver}

    def queries(self):
        u = gen.uri(self.path)
        self.ops.append(gen.req(self.rid(), "textDocument/documentSymbol", {"textDocument": {"uri": u}}))
        if self.rng.random() < 0.5:
            self.ops.append(gen.req(self.rid(), "workspace/symbol", {"query": self.tag}))


def gen_sched(g):
    i = g["i"]
    rng = base.rng_for(g)
    tag = "zq" + gen.rand_ident(rng, 5)
    tab = table()
    kind = None
    if g["tier"] == "thorough" and i < len(tab):
        rel, j = tab[i]
        name, text = rel.replace("/", "_"), gen.corpus()[rel]
        kind = "enum-prefix"
    elif g["tier"] == "quick" and i < 600:
        # a deterministic stride through the enumerated table
        rel, j = tab[(i * 7919) % len(tab)]
        name, text = rel.replace("/", "_"), gen.corpus()[rel]
        kind = "enum-prefix"
    else:
        name, text = pick_base(rng)
        kind = rng.choice(["prefix", "typing", "typing", "corrupt", "corrupt", "midtyping"])
    b = Builder(rng, name, tag)
    incremental = True
    tree = {}
    faults = []
    if kind == "enum-prefix":
        ls = model.split_lines(text)
        first = "\n".join(ls[:j]) + ("\n" if j else "")
        tree[b.path] = b.body(first)
        b.ops += [gen.initialize(0), gen.initialized()]
        b.mark()
        b.queries()
        b.ops.append(gen.did_open(b.path, ""))
        b.queries()
        # the same prefix without the final newline, and cut inside the next line
        nxt = ls[j] if j < len(ls) else ""
        for extra in (nxt[: len(nxt) // 2], nxt):
            content = b.body(first + extra)
            b.ops.append(gen.did_change(b.path, [{"text": content}], b.ver))
            b.mark()
            b.queries()
        content = b.body(first.rstrip("\n"))
        b.ops.append(gen.env_write(b.path, content))
        b.ops.append(gen.did_save(b.path))
        b.mark()
        b.queries()
    elif kind == "prefix":
        c0 = cut_text(rng, text, rng.choice(["line", "byte"]))
        tree[b.path] = b.body(c0)
        b.ops += [gen.initialize(0), gen.initialized()]
        b.mark()
        b.queries()
        b.ops.append(gen.did_open(b.path, ""))
        b.queries()
        for _ in range(rng.randint(1, 5)):
            c = cut_text(rng, text, rng.choice(["line", "byte", "byte"]))
            content = b.body(c)
            if rng.random() < 0.5 or isinstance(content, bytes):
                b.ops.append(gen.env_write(b.path, content))
                b.ops.append(gen.did_save(b.path))
            else:
                b.ops.append(gen.did_change(b.path, [{"text": content}], b.ver))
            b.mark()
            b.queries()
        if rng.random() < 0.3:
            faults.append({"op": 0, "seam": "open", "nth": rng.choice([0, 1]), "kind": "torn",
                           "cut": rng.random()})
    elif kind == "corrupt":
        c0 = corrupt(rng, text)
        tree[b.path] = b.body(c0)
        b.ops += [gen.initialize(0), gen.initialized()]
        b.mark()
        b.queries()
        b.ops.append(gen.did_open(b.path, ""))
        b.queries()
        cur = text
        for _ in range(rng.randint(1, 6)):
            c = corrupt(rng, cur)
            if isinstance(c, str) and rng.random() < 0.5:
                cur = c  # corruption accumulates
            content = b.body(c)
            if isinstance(content, bytes) or rng.random() < 0.4:
                b.ops.append(gen.env_write(b.path, content))
                b.ops.append(gen.did_save(b.path))
            else:
                b.ops.append(gen.did_change(b.path, [{"text": content}], b.ver))
            b.mark()
            b.queries()
    else:  # typing / midtyping: incremental edits with a version bump in the same notification
        gran = rng.choice(["line", "line", "token", "char"])
        maxlen = {"line": 4000, "token": 700, "char": 160}[gran]
        src = text[:maxlen]
        if gran == "line":
            pieces = [ln + "\n" for ln in src.split("\n")]
        elif gran == "token":
            import re

            pieces = re.findall(r"\s+|\w+|[^\w\s]", src)
        else:
            pieces = list(src)
        if kind == "midtyping":
            host = gen.small_program(rng, "h" + gen.rand_ident(rng, 2))
            host_lines = host.split("\n")
            at = rng.randrange(1, len(host_lines))
            head = "\n".join(host_lines[:at]) + "\n"
            tail = "\n".join(host_lines[at:])
        else:
            head, tail = "", ""
        first = b.body(head + tail)
        tree[b.path] = first
        b.ops += [gen.initialize(0), gen.initialized(), gen.did_open(b.path, "")]
        b.mark()
        b.queries()
        doc = model.split_lines(first)
        # insertion point: end of head (line, character)
        head_lines = model.split_lines(sentinel(tag, b.fid, 1, b.fixed) + head)
        pos_l, pos_c = len(head_lines) - 1, len(head_lines[-1])
        every = max(1, len(pieces) // 25)
        for n, pz in enumerate(pieces):
            b.ver += 1
            b.ntexts += 1
            ind = "      " if b.fixed else ""
            new0 = f"{ind}module {tag}_{b.fid}_v{b.ver}"
            new1 = f"{ind}end module {tag}_{b.fid}_v{b.ver}"
            changes = [
                {"range": {"start": {"line": 0, "character": 0},
                           "end": {"line": 0, "character": len(doc[0])}}, "text": new0},
                {"range": {"start": {"line": 1, "character": 0},
                           "end": {"line": 1, "character": len(doc[1])}}, "text": new1},
                {"range": {"start": {"line": pos_l, "character": pos_c},
                           "end": {"line": pos_l, "character": pos_c}}, "text": pz},
            ]
            for ch in changes:
                doc = model.apply_change(doc, ch)
            ins = model.split_lines(pz)
            if len(ins) == 1:
                pos_c += len(ins[0])
            else:
                pos_l += len(ins) - 1
                pos_c = len(ins[-1])
            b.ops.append(gen.did_change(b.path, changes, b.ver))
            b.mark()
            if n % every == 0 or n == len(pieces) - 1:
                b.queries()
        if rng.random() < 0.5:
            b.ops.append(gen.env_write(b.path, "\n".join(doc)))
            b.ops.append(gen.did_save(b.path))
            b.queries()
    extra_tree = {}
    if '"L.h"' in text:
        extra_tree[f"{ROOT}/L.h"] = pp_lifecycle(rng, header=True)
    if "#include" in text or rng.random() < 0.08:
        # headers the text may #include: plain, with bytes that are not UTF-8, a directory, empty
        for hn in ("A.h", "B.h", "C.h", "X.h", "GE.h", "MAXV.h", "nope.h"):
            r = rng.random()
            if r < 0.35:
                extra_tree[f"{ROOT}/{hn}"] = f"#define FROM_{hn[0]} 1\n#define {hn[0]} 2\n"
            elif r < 0.6:
                extra_tree[f"{ROOT}/{hn}"] = {"b64": __import__("base64").b64encode(
                    b"! caf\xe9 \xff\xfe header\n#define LATIN_" + hn[0].encode() + b" 1\n\x80\x81\n").decode()}
            elif r < 0.7:
                extra_tree[f"{ROOT}/{hn}/"] = ""
            elif r < 0.75:
                extra_tree[f"{ROOT}/{hn}"] = ""
            elif r < 0.95:
                # a header with a life of its own: includes other headers, itself or the including
                # document (once or several times) and redefines the document's macros, object-like
                # as function-like and back
                hl = []
                import re as _re

                # the includer's own macros, so that the header changes their kind under its feet
                doc_macros = sorted(set(_re.findall(r"#define\s+([A-Za-z_]\w*)", text))) or ["A", "B", "C"]
                for _ in range(rng.randint(1, 5)):
                    q = rng.random()
                    m_ = rng.choice(doc_macros + ["A", "B", "C", "X", "GE", "MAXV"][: max(1, 6 - len(doc_macros))])
                    if q < 0.45:
                        tgt = rng.choice(["A.h", "B.h", "C.h", "X.h", hn, hn, name])
                        hl.append(f'#include "{tgt}"')
                    elif q < 0.6:
                        hl.append(f"#define {m_}(n) n + 1")
                    elif q < 0.75:
                        hl.append(f"#define {m_} {rng.choice(['1', '2', 'B', ''])}")
                    elif q < 0.85:
                        hl.append(f"#undef {m_}")
                    else:
                        hl.append(rng.choice([f"#ifndef {m_}", "#endif", f"#if {m_} > 1", "#else"]))
                extra_tree[f"{ROOT}/{hn}"] = "\n".join(hl) + "\n"
    if name.rsplit(".", 1)[1].isupper() and rng.random() < 0.25:
        # a second preprocessed document that defines / undefines / redefines the same macro names,
        # edited in between (macro tables are shared server-wide)
        other = f"{ROOT}/zz_other.F90"
        texts2 = [pp_storm(rng) for _ in range(rng.randint(2, 4))]
        extra_tree[other] = texts2[0]
        k_ins = [j for j, o in enumerate(b.ops) if o["k"] == "msg" and o["m"].get("method") in
                 ("textDocument/didChange", "textDocument/didSave")]
        ins = [gen.did_open(other, "")]
        for t2 in texts2[1:]:
            ins.append(gen.did_change(other, [{"text": t2}]))
        ins.append(gen.did_close(other))
        # interleave: spread the other document's notifications over the session
        for n_, op_ in enumerate(ins):
            at = (k_ins[min(len(k_ins) - 1, n_ * max(1, len(k_ins) // len(ins)))] + 1 + n_) if k_ins else len(b.ops)
            b.ops.insert(min(at, len(b.ops)), op_)
    b.ops += [gen.req(b.rid(), "shutdown"), gen.note("exit")]
    argv = ["--incremental_sync", "--disable_autoupdate"]
    if rng.random() < 0.2:
        argv += ["--pp_suffixes", "." + name.rsplit(".", 1)[1]]
    if rng.random() < 0.15:
        argv += ["--pp_defs", '{"X": "1", "HAVE_FOO": ""}']
    tree_out = {p: (v if isinstance(v, str) else __import__("dst.sim", fromlist=["x"]).enc_bytes(v))
                for p, v in tree.items()}
    tree_out.update(extra_tree)
    return {"argv": argv, "tree": tree_out,
            "ops": b.ops, "faults": faults, "sync_kind": 2, "strict_edits": True,
            "oracles": ["c03"], "sentinel_tag": tag, "budget": 6_000_000,
            "kind": kind, "base": name, "ntexts": b.ntexts,
            "pool": {"assign": [0]}}


def nontrivial(o):
    return o.get("ops", 0) >= 6
