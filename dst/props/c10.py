"""C10 - after saving, answers depend only on the files, not on the edit history."""
from __future__ import annotations

import copy
import hashlib
import json
import re

from .. import gen, model
from .. import progmodel as pm
from .. import shrink as _shrink
from ..sim import ROOT
from . import base

ID = "C10"
LEVEL = "exploration"
TECHNIQUE = ("deterministic simulation, refinement against a fresh reference server: seeded "
             "histories of open/edit/save/close/create/delete/rename/revert over a template "
             "family of inter-dependent workspaces (with interleaved queries that populate "
             "caches), then the same read-only battery against the long-lived server and a fresh "
             "server started on the final disk; transcripts compared after order-normalisation")
RULE = ("case = template workspace (2-8 files: modules with types/EXTENDS/USE ONLY+rename, program, "
        "INCLUDE fragment, submodule, preprocessed file with private macros) x history of 5-40 "
        "steps of semantic edit operators (rename/add/remove modules, types, components, "
        "procedures; toggle PRIVATE; retarget EXTENDS/USE; move entity; create/delete/rename "
        "file; revert) delivered as didChange/didSave/didOpen/didClose with interleaved "
        "positional queries, ending with all buffers saved; one long-history class wraps the "
        "link-version counter. Non-trivial = at least one operator changed a cross-file "
        "dependency and both servers answered the battery; distinct = distinct digest of both "
        "transcripts")
ASSUMPTIONS = [
    "macro names are private to each file; all files live in the root with default suffixes so "
    "that a fresh server indexes exactly the same set",
    "every disk change is announced by didOpen/didSave/didClose before the battery; buffers equal "
    "files at the end (checked by the executor, violations of this make the schedule invalid)",
    "answers are compared after sorting what LSP leaves unordered (locations, symbols, completion "
    "items, diagnostics); tracebacks dropped",
    "equality of two runs of the same code cannot see an error both share",
]
LEVEL_TEXT = ("Exploration with a refinement oracle: the reference model is the system itself "
              "without history (fortls keeps no durable state, so crash-restart with only durable "
              "state surviving *is* the fresh server). Every answer of a battery of ~10^2-10^3 "
              "requests must be equal.")
LEVEL_NOTE = ("Differential; sampling over histories. Trusts the normalisation in "
              "oracles.normalise_result to remove only protocol-level ordering freedom.")

BATTERY = {"methods": ["definition", "hover", "references", "completion", "signatureHelp",
                       "implementation"], "max_pos_per_file": 36, "resave": True}


def plan(tier):
    return {"cases": 700, "wall_s": 170} if tier == "quick" else {"cases": 40000, "wall_s": 1750}


def path_of(name):
    return f"{ROOT}/{name}"


class Hist:
    def __init__(self, rng, incremental):
        self.rng = rng
        self.ops = []
        self.disk = {}
        self.docs = {}  # path -> lines (open documents)
        self.nid = 0
        self.incremental = incremental
        self.opnames = []
        self.faults = []
        self.faulted = set()

    def maybe_fault(self, p):
        """the disk read behind the notification just appended fails transiently (file being
        replaced, momentarily unreadable); the client announces the file again later"""
        if self.rng.random() < 0.12:
            self.faults.append({"op": len(self.ops) - 1, "seam": "open", "nth": 0,
                                "kind": self.rng.choice(["enoent", "eio", "eacces", "eio-read"])})
            self.faulted.add(p)

    def rid(self):
        self.nid += 1
        return self.nid

    def open(self, p):
        if p in self.docs or p not in self.disk:
            return
        self.ops.append(gen.did_open(p, self.disk[p]))
        self.docs[p] = model.lines_from_disk(self.disk[p].encode("utf-8"))

    def dirty(self, p):
        return p in self.docs and "\n".join(self.docs[p]) != "\n".join(
            model.lines_from_disk(self.disk[p].encode("utf-8")) if p in self.disk else [])

    def save(self, p):
        text = "\n".join(self.docs[p])
        self.disk[p] = text
        self.ops.append(gen.env_write(p, text))
        self.ops.append(gen.did_save(p))
        self.maybe_fault(p)
        self.docs[p] = model.lines_from_disk(text.encode("utf-8"))

    def close(self, p, discard=False):
        if self.dirty(p) and not discard:
            self.save(p)
        # discard: the editor closes the document without saving; the file on disk counts again
        self.ops.append(gen.did_close(p))
        self.docs.pop(p, None)

    def change_to(self, p, new_text):
        """bring file p to new_text through the protocol"""
        rng = self.rng
        new_lines = model.split_lines(new_text)
        if p not in self.disk and p not in self.docs:
            # create (+open +maybe save)
            self.disk[p] = new_text
            self.ops.append(gen.env_write(p, new_text))
            self.open(p)
            if rng.random() < 0.3:
                self.ops.append(gen.did_save(p))
            return
        if p not in self.docs:
            if rng.random() < 0.45:
                # changed outside the editor, then announced
                self.disk[p] = new_text
                self.ops.append(gen.env_write(p, new_text))
                self.ops.append(rng.choice([gen.did_save(p), gen.did_close(p)]))
                self.maybe_fault(p)
                return
            self.open(p)
        old = self.docs[p]
        if self.incremental and rng.random() < 0.85:
            ch = pm.diff_change(old, new_lines)
            if ch is None:
                return
            changes = [ch]
        else:
            changes = [{"text": new_text}]
        self.ops.append(gen.did_change(p, changes))
        self.docs[p] = model.apply_change(old, changes[0]) if "range" in changes[0] else new_lines
        if rng.random() < 0.5:
            self.save(p)

    def delete(self, p):
        if p in self.disk:
            del self.disk[p]
            self.ops.append(gen.env_delete(p))
        self.ops.append(gen.did_close(p))
        self.docs.pop(p, None)

    def queries(self, n):
        rng = self.rng
        cands = sorted(set(self.docs) | set(self.disk))
        if not cands:
            return
        for _ in range(n):
            p = rng.choice(cands)
            lines = self.docs.get(p) or model.lines_from_disk(self.disk[p].encode("utf-8"))
            pts = []
            for li, ln in enumerate(lines):
                for m in re.finditer(r"%[A-Za-z_]\w*|[A-Za-z_]\w*", ln):
                    pts.append((li, m.end() - 1))
            if not pts:
                continue
            li, ch = rng.choice(pts)
            meth = rng.choice(["textDocument/hover", "textDocument/definition", "textDocument/completion",
                               "textDocument/references", "textDocument/signatureHelp"])
            self.ops.append(gen.positional(self.rid(), meth, p, li, ch, rng=rng))


def gen_case(g):
    rng = base.rng_for(g)
    i = g["i"]
    ws = pm.new_workspace(rng)
    # headers whose macros a source uses are macro names shared across files: outside C10's
    # quantifier ("sources that do not share preprocessor macro names across files")
    for n in [n for n, u in ws["files"].items() if u["kind"] == "header"]:
        del ws["files"][n]
    for u in ws["files"].values():
        u.pop("header", None)
    texts = pm.render_all(ws)
    incremental = rng.random() < 0.8
    argv = ["--disable_autoupdate"] + (["--incremental_sync"] if incremental else [])
    argv += rng.choice([[], [], ["--max_line_length", "100"], ["--nthreads", str(rng.randint(1, 6))],
                        ["--sort_keywords"], ["--max_line_length", "90", "--max_comment_line_length", "30"],
                        ["--pp_suffixes", ".F90", ".f90"], ["--lowercase_intrinsics"]])
    h = Hist(rng, incremental)
    h.ops += [gen.initialize(0), gen.initialized()]
    tree = {path_of(n): t for n, t in texts.items()}
    h.disk = dict(tree)
    for p in rng.sample(sorted(tree), min(len(tree), rng.randint(1, 3))):
        h.open(p)
    h.queries(rng.randint(2, 10))
    snapshots = [copy.deepcopy(ws)]
    long_history = (i % 40 == 7)
    nsteps = rng.randint(5, 40) if not long_history else rng.randint(4, 8)
    for _ in range(nsteps):
        r = rng.random()
        if r < 0.62:
            d = pm.apply_operator(rng, ws)
            if d is None:
                continue
            h.opnames.append(d["op"])
        elif r < 0.7 and len(snapshots) > 1:
            maxc = max([ws["counter"]] + [sn["counter"] for sn in snapshots])
            ws = copy.deepcopy(rng.choice(snapshots))
            ws["counter"] = maxc  # names made up after a revert never repeat earlier ones
            h.opnames.append("revert")
        elif r < 0.78:
            cands = [p for p in sorted(h.disk) if p not in h.docs]
            if cands:
                h.open(rng.choice(cands))
            continue
        elif r < 0.86:
            if h.docs:
                h.close(rng.choice(sorted(h.docs)), discard=rng.random() < 0.5)
            continue
        elif r < 0.92:
            dirty = [p for p in sorted(h.docs) if h.dirty(p)]
            if dirty:
                h.save(rng.choice(dirty))
            continue
        else:
            h.queries(rng.randint(1, 6))
            continue
        new_texts = pm.render_all(ws)
        new_paths = {path_of(n): t for n, t in new_texts.items()}
        known = set(h.disk) | set(h.docs)
        for p in sorted(known - set(new_paths)):
            h.delete(p)
        for p in sorted(new_paths):
            cur = "\n".join(h.docs[p]) if p in h.docs else h.disk.get(p)
            want = new_paths[p]
            if cur is None or "\n".join(model.split_lines(cur)) != "\n".join(model.split_lines(want)):
                h.change_to(p, want)
        snapshots.append(copy.deepcopy(ws))
        if rng.random() < 0.6:
            h.queries(rng.randint(1, 5))
    if long_history and h.disk:
        # ~1100 cheap re-parsing edits: wraps the link-version counter (modulo 1000)
        cands = [p for p in sorted(h.disk) if p.endswith(".f90")]
        p = rng.choice(cands)
        h.open(p)
        for k in range(1100):
            line0 = h.docs[p][0]
            ch = {"range": {"start": {"line": 0, "character": len(line0)},
                            "end": {"line": 0, "character": len(line0)}}, "text": "\n"}
            ch2 = {"range": {"start": {"line": 0, "character": len(line0)},
                             "end": {"line": 1, "character": 0}}, "text": ""}
            for c in (ch, ch2):
                if incremental:
                    h.ops.append(gen.did_change(p, [c]))
                    h.docs[p] = model.apply_change(h.docs[p], c)
                else:
                    h.docs[p] = model.apply_change(h.docs[p], c)
                    h.ops.append(gen.did_change(p, [{"text": "\n".join(h.docs[p])}]))
        h.opnames.append("long")
    for p in sorted(h.docs):
        if h.dirty(p):
            if rng.random() < 0.3:
                h.close(p, discard=True)
                if rng.random() < 0.5:
                    h.open(p)
            else:
                h.save(p)
    # files whose announcement met a transient read failure are announced once more, cleanly
    for p in sorted(h.faulted):
        if p in h.disk:
            h.ops.append(gen.did_save(p) if p in h.docs else gen.did_close(p))
    h.ops.append({"k": "obs", "what": "saved"})
    h.ops.append({"k": "battery", "spec": BATTERY})
    h.ops += [gen.req(99990, "shutdown"), gen.note("exit")]
    # D.race: some of the client's disk writes land *inside* the handler of the preceding
    # message instead of between two messages (client and server are independent processes)
    faults = list(h.faults)
    if rng.random() < 0.4:
        k = 1
        while k < len(h.ops):
            op, prev = h.ops[k], h.ops[k - 1]
            if op["k"] == "env" and op["do"] == "write" and prev["k"] == "msg" and prev["m"].get("method") in (
                    "textDocument/didOpen", "textDocument/didSave", "textDocument/didClose",
                    "textDocument/didChange") and rng.random() < 0.3:
                del h.ops[k]
                for f_ in faults:  # operations after the removed one move up
                    if f_["op"] > k:
                        f_["op"] -= 1
                faults.append({"op": k - 1, "seam": rng.choice(["open", "isfile"]), "nth": rng.randint(0, 2),
                               "kind": "race", "env": [op]})
                continue
            k += 1
    A = {"argv": argv, "tree": tree, "ops": h.ops, "sync_kind": 2 if incremental else 1, "faults": faults,
         "strict_edits": True, "require_open": True, "pipeline": False, "want_transcript": True,
         "want_final": True,
         "chunks": rng.choice([None, None, [512], [4096, 7]]),
         "pool": {"assign": [rng.randrange(4) for _ in range(rng.randint(1, 4))]},
         "order": rng.choice([None, "rev", rng.randint(0, 999)]), "operators": h.opnames,
         "fsclock": rng.choice(["fine", "fine", "coarse", "frozen"])}
    return {"A": A, "operators": h.opnames, "long": long_history}


def fresh_schedule(A, resA):
    tree = dict(resA["final_disk"])
    for d in resA.get("final_dirs", []):
        if d != ROOT and d.startswith(ROOT + "/"):
            tree[d + "/"] = ""
    ops = [gen.initialize(0), gen.initialized()]
    from .. import sim

    for p in resA["open_docs"]:
        text = sim.dec_bytes(resA["final_disk"][p]).decode("utf-8", "replace") if p in resA["final_disk"] else ""
        ops.append(gen.did_open(p, text))
    ops.append({"k": "obs", "what": "saved"})
    ops.append({"k": "battery", "spec": BATTERY})
    ops += [gen.req(99990, "shutdown"), gen.note("exit")]
    return {"argv": list(A["argv"]), "tree": tree, "ops": ops, "sync_kind": A.get("sync_kind", 1),
            "strict_edits": True, "pipeline": False, "want_transcript": True,
            "pool": {"assign": [0]}, "order": None}


def json_path_diff(a, b, path=""):
    if type(a) is not type(b):
        return path or "/"
    if isinstance(a, dict):
        for k in sorted(set(a) | set(b)):
            if k not in a or k not in b:
                return f"{path}/{k}"
            d = json_path_diff(a[k], b[k], f"{path}/{k}")
            if d:
                return d
        return None
    if isinstance(a, list):
        if len(a) != len(b):
            return f"{path}[len]"
        for k, (x, y) in enumerate(zip(a, b)):
            d = json_path_diff(x, y, f"{path}[]")
            if d:
                return d
        return None
    return None if a == b else (path or "/")


def exec_case(case, run_fn):
    A = case["A"]
    ra = run_fn(A)
    summ = {k: v for k, v in ra.items() if k not in ("transcript", "final_disk", "final_dirs")}
    summ["runs"] = 1
    if ra.get("status") != "done":
        return summ
    B = fresh_schedule(A, ra)
    rb = run_fn(B)
    summ["runs"] = 2
    summ["steps"] = ra.get("steps", 0) + rb.get("steps", 0)
    if rb.get("status") != "done":
        summ["status"] = rb.get("status")
        summ["error"] = "fresh server: " + str(rb.get("error"))
        summ["violations"] = list(ra.get("violations", [])) + list(rb.get("violations", []))
        return summ
    ta, tb = ra.get("transcript", []), rb.get("transcript", [])
    viol = []
    la, lb = [e[0] for e in ta], [e[0] for e in tb]
    if la != lb:
        # the batteries themselves differ: harness problem, not a verdict
        summ["status"] = "HARNESS"
        k = next((j for j in range(min(len(la), len(lb))) if la[j] != lb[j]), min(len(la), len(lb)))
        summ["error"] = f"battery labels differ at {k}: {la[k:k+2]} vs {lb[k:k+2]} ({len(la)} vs {len(lb)})"
        return summ
    for (lab, x), (_, y) in zip(ta, tb):
        if x != y:
            meth = lab.split("@")[0].split("?")[0]
            jp = json_path_diff(x, y) or "?"
            ops_kinds = "+".join(sorted(set(case.get("operators", [])))[:6])
            viol.append({"prop": "C10", "clause": "history-dependent-answer",
                         "site": f"{meth} {jp} after [{ops_kinds}]",
                         "detail": f"{lab}: long-lived={json.dumps(x)[:500]} fresh={json.dumps(y)[:500]}",
                         "op": -1, "coarse": f"diff:{meth}"})
            break
    summ["violations"] = list(ra.get("violations", [])) + list(rb.get("violations", [])) + viol
    summ["digest"] = hashlib.sha256(json.dumps([ta, tb], sort_keys=True).encode()).hexdigest()
    summ["sample"] = {"operators": case.get("operators"), "battery_requests": len(ta),
                      "argv": A["argv"]}
    summ["reach"] = dict(ra.get("reach", {}), battery_requests=len(ta),
                         long_history=int(bool(case.get("long"))))
    return summ


def shrink_case(case, sig, runner, budget_s):
    def run_sched(s):
        c = dict(case)
        c["A"] = s
        c["operators"] = [o for o in case.get("operators", [])]
        return runner(c)

    small, _ = _shrink.shrink(case["A"], sig, run_sched, budget_s=budget_s)
    out = dict(case)
    out["A"] = small
    return out


def nontrivial(o):
    return o["status"] == "done" and o.get("runs", 0) == 2


from .base import CaseInWorker  # noqa: E402
import sys as _sys  # noqa: E402

CASE = CaseInWorker(_sys.modules[__name__])
