"""C18 - exactly the configured source files are indexed at start-up."""
from __future__ import annotations

import fnmatch
import json
import os

from .. import gen
from ..sim import CANON, ROOT
from . import base

ID = "C18"
ENGINE = "startup"
LEVEL = "exploration"
TECHNIQUE = ("deterministic simulation of start-up over simulated directory trees: real discovery "
             "code (glob resolution, os.walk, os.listdir through order-permuting seams, pool "
             "workers) against an independent reference model of the stated discovery rule, under "
             "listing-order permutations, hash seeds, worker schedules and per-file read faults")
RULE = ("case = simulated tree (depth <= 4, <= 25 entries: nested/empty/hidden directories, "
        "directories named like sources, mixed-case suffixes, look-alike suffixes .f9 .f90.bak "
        "f90-without-dot .F90~, configured extra suffixes with and without dot; every file "
        "declares a uniquely named module) x configuration (source_dirs absent/literal/glob/"
        "absolute/non-existent/'.', excl_paths literal dir/file/glob/**, incl_suffixes, "
        "excl_suffixes; each through CLI or config file) x schedule (listing order, hash seed, "
        "workers). A separate faulty class makes one file unreadable or vanish. Non-trivial = the "
        "expected set is non-empty and differs from 'all files of the tree'; distinct = distinct "
        "digest of event log and output")
ASSUMPTIONS = [
    "reference model written from the property statement and docs/options.rst: suffix matched at "
    "the end of the name, default suffixes case-insensitive, configured ones verbatim; a literal "
    "excluded directory does not exclude its sub-directories (the documentation prescribes dir/**)",
    "symlinks and case-insensitive file systems are not generated; '**' as the last pattern "
    "segment is only used where matching directories only or also files gives the same answer",
    "in-process observation of LangServer.workspace keys in addition to the black-box "
    "workspace/symbol listing",
]
LEVEL_TEXT = ("Exploration against a reference model: each bring-up executes the real "
              "_resolve_globs_in_paths/_add_source_dirs/_get_source_files/workspace_init on a real "
              "directory tree and must index exactly the set computed by a 60-line independent "
              "model (own glob matcher, own suffix table), whatever the enumeration order, hash "
              "seed or worker count; with one injected read fault the faulted file, and only it, "
              "may be missing and must be announced.")
LEVEL_NOTE = ("Trusts the reference model in this file (model_glob, expected_index); configurations "
              "whose meaning the statement leaves open are not generated rather than guessed.")

DEFAULT_SUFFIXES = [".f", ".f03", ".f05", ".f08", ".f18", ".f77", ".f90", ".f95", ".for", ".fpp"]
LOOKALIKES = [".f9", ".f90.bak", ".F90~", ".ff", ".f900", ".fo", ".fp", ".f0", ".txt", ".f90x",
              ".xf90", ".F", ".f.orig"]


def plan(tier):
    return {"cases": 3000, "wall_s": 150} if tier == "quick" else {"cases": 120000, "wall_s": 1700}


# ---------------------------------------------------------------- reference model


def _children(universe_dirs, universe_files, d):
    pre = d.rstrip("/") + "/"
    out = set()
    for p in universe_dirs:
        if p.startswith(pre) and "/" not in p[len(pre):] and p != d:
            out.add(p)
    for p in universe_files:
        if p.startswith(pre) and "/" not in p[len(pre):]:
            out.add(p)
    return sorted(out)


def model_glob(pattern, root, dirs, files):
    """paths (dirs and files of the model) matched by a glob pattern, relative to root or absolute"""
    if not any(c in pattern for c in "*?["):
        # a literal entry names the directory or file it names, however it is spelt
        pattern = os.path.normpath(pattern)
    dirs = set(dirs) | {root}
    d = root
    while d not in ("/", ""):
        dirs.add(d)
        d = os.path.dirname(d)
    dirs.add("/")
    if os.path.isabs(pattern):
        base_ = "/"
        segs = [s for s in pattern.split("/") if s not in ("", ".")]
    else:
        base_ = root
        segs = [s for s in pattern.split("/") if s not in ("", ".")]
    if not segs:
        return {base_}
    results = set()

    def rec(cur, i):
        if i == len(segs):
            results.add(cur)
            return
        seg = segs[i]
        if cur not in dirs:
            return
        if seg == "**":
            # zero or more directories
            rec_star(cur, i)
            return
        for ch in _children(dirs, files, cur):
            name = ch.rsplit("/", 1)[1]
            if fnmatch.fnmatchcase(name, seg):
                rec(ch, i + 1)

    def rec_star(cur, i):
        # '**' matches cur itself and every directory below it
        stack = [cur]
        while stack:
            d_ = stack.pop()
            if i + 1 == len(segs):
                results.add(d_)
            else:
                rec(d_, i + 1)
            for ch in _children(dirs, files, d_):
                if ch in dirs:
                    stack.append(ch)

    rec(base_, 0)
    return results


def suffix_ok(name, incl):
    low = name.lower()
    for s in DEFAULT_SUFFIXES:
        if low.endswith(s):
            return True
    return any(name.endswith(s) for s in incl)


def expected_index(root, files, dirs, cfg):
    files = set(files)
    dirs = set(dirs) | {root}
    incl = cfg.get("incl_suffixes") or []
    excl_suf = cfg.get("excl_suffixes") or []
    excl = set()
    for p in cfg.get("excl_paths") or []:
        excl |= model_glob(p, root, dirs, files)
    if cfg.get("source_dirs") is None:
        src = set()
        for d in dirs:
            if d == root or d.startswith(root + "/"):
                kids = [f for f in files if os.path.dirname(f) == d]
                if any(suffix_ok(os.path.basename(f), incl) for f in kids):
                    src.add(d)
    else:
        src = set()
        for p in cfg["source_dirs"]:
            src |= {x for x in model_glob(p, root, dirs, files) if x in dirs}
    src -= excl
    out = set()
    for f in files:
        name = os.path.basename(f)
        if os.path.dirname(f) in src and suffix_ok(name, incl) and f not in excl \
                and not any(name.endswith(e) for e in excl_suf):
            out.add(f)
    return out


# ---------------------------------------------------------------- generator


def gen_tree(rng, incl_pool):
    dirs = [ROOT]
    names_d = ["src", "lib", "a", "b", "tmp", "tmp2", "skip", "build", ".hid", "x.f90", "deep", "mod.F"]
    for _ in range(rng.randint(0, 6)):
        parent = rng.choice(dirs)
        if parent.count("/") - ROOT.count("/") >= 3:
            continue
        d = parent + "/" + rng.choice(names_d)
        if d not in dirs:
            dirs.append(d)
    files = {}
    n = rng.randint(1, 16)
    for k in range(n):
        d = rng.choice(dirs)
        r = rng.random()
        if r < 0.55:
            suf = rng.choice(DEFAULT_SUFFIXES)
            suf = "".join(c.upper() if rng.random() < 0.4 else c for c in suf)
        elif r < 0.8:
            suf = rng.choice(LOOKALIKES)
        else:
            suf = rng.choice(incl_pool + [".INC", ".fyp"])
        stem = rng.choice(["m", "file", "a_tmp", "x_hdf5", "t", "u", "e\u0301tude", "\u212bng", "sen\u0303al"]) + str(k)
        if suf and not suf.startswith(".") and rng.random() < 0.5:
            stem += "."  # 'file.inc' for suffix 'inc' as well as 'fileinc'
        name = stem + suf
        p = d + "/" + name
        if p in dirs or p in files:
            continue
        files[p] = f"module umod{k}\n  integer :: v{k}\nend module umod{k}\n"
    if not files:
        files[ROOT + "/only.f90"] = "module umod0\nend module umod0\n"
    links = {}
    if rng.random() < 0.25:
        # entries that are neither files nor directories: a symlink to itself and a dangling one
        for nm, target in (("loop.f90", "loop.f90"), ("aaa_loop.F", "aaa_loop.F"), ("dangling.f90", "nowhere.f90")):
            if rng.random() < 0.6:
                d = rng.choice(dirs)
                if d + "/" + nm not in files:
                    links[d + "/" + nm] = target
    return dirs, files, links


def gen_cfg(rng, dirs, files, incl_pool):
    cfg = {}
    sub = [d for d in dirs if d != ROOT]
    rel = lambda p: p[len(ROOT) + 1:]  # noqa: E731
    r = rng.random()
    if r < 0.45:
        cfg["source_dirs"] = None
    else:
        ents = []
        for _ in range(rng.randint(1, 3)):
            t = rng.random()
            if t < 0.3 and sub:
                ents.append(rel(rng.choice(sub)))
            elif t < 0.45 and sub:
                ents.append(rel(rng.choice(sub)) + "/**")
            elif t < 0.55:
                ents.append(rng.choice(["**", "./**", "*", "s*", "*/*", "**/a"]))
            elif t < 0.65 and sub:
                ents.append(rng.choice(sub))  # absolute
            elif t < 0.75:
                ents.append(rng.choice(["nonexistent", "no/such/dir", "zz*"]))
            elif t < 0.87:
                ents.append(rng.choice([".", "./", ROOT]))
            elif sub:
                ents.append("./" + rel(rng.choice(sub)))
        cfg["source_dirs"] = ents or ["."]
    if rng.random() < 0.5:
        ents = []
        for _ in range(rng.randint(1, 2)):
            t = rng.random()
            if t < 0.3 and sub:
                ents.append(rel(rng.choice(sub)))
            elif t < 0.5 and sub:
                ents.append(rel(rng.choice(sub)) + "/**")
            elif t < 0.7:
                ents.append(rel(rng.choice(sorted(files))))
            elif t < 0.85:
                ents.append(rng.choice(["**/tmp*", "*/skip", "tmp*", "**/*.bak", "*.f90", "**/m*"]))
            else:
                ents.append(rng.choice(sub + [ROOT + "/nonexistent"]) if sub else "nonexistent")
        cfg["excl_paths"] = ents
    if rng.random() < 0.4:
        cfg["incl_suffixes"] = rng.sample(incl_pool, rng.randint(1, 2))
    if rng.random() < 0.35:
        cfg["excl_suffixes"] = rng.sample(["_tmp.f90", ".F90", "f", "_hdf5.F90", ".f", "0.f90", ".for"],
                                          rng.randint(1, 2))
    return cfg


def respell(rng, entry, is_dir=True):
    """the same literal path written the way people and tools write paths"""
    if any(c in entry for c in "*?[") or entry in (".", "./") or os.path.isabs(entry) or rng.random() < 0.6:
        return entry
    entry = os.path.normpath(entry)
    parts = entry.split("/")
    form = rng.randrange(5)
    if form == 0:
        return "./" + entry
    if form == 1:
        # a trailing separator only ever names a directory
        return entry + "/" if is_dir else "./" + entry
    if len(parts) == 1 and not is_dir:
        return "./" + entry  # 'file/../file' does not name the file: its first part is no directory
    if form == 2:
        return "/".join(parts[:1] + ["..", parts[0]] + parts[1:])          # a/../a/b
    if form == 3:
        return "/".join(parts[:-1] + [".", parts[-1]])                     # a/./b
    return parts[0] + "/../" + entry                                        # a/../a/b (same as 2 for depth 1)


def channelise(rng, cfg, decoy=None):
    """split the configuration between command line and config file; sometimes the command line
    carries a different value for an option the file sets as well (the file's value is the
    configured one: docs/options.rst, 'the configuration file has precedence')"""
    argv = []
    filecfg = {}
    for k in ("source_dirs", "excl_paths", "incl_suffixes", "excl_suffixes"):
        v = cfg.get(k)
        if v is None:
            continue
        r = rng.random()
        if r < 0.45:
            argv += ["--" + k] + list(v)
        else:
            filecfg[k] = list(v)
            if r > 0.8 and decoy and decoy.get(k) and decoy[k] != v:
                argv += ["--" + k] + list(decoy[k])
    return argv, filecfg


def gen_sched(g):
    rng = base.rng_for(g)
    incl_pool = [".inc", "inc", ".FYP", ".h", ".fypp"]
    dirs, files, links = gen_tree(rng, incl_pool)
    cfg = gen_cfg(rng, dirs, files, incl_pool)
    spelt = dict(cfg)
    for k in ("source_dirs", "excl_paths"):
        if cfg.get(k):
            spelt[k] = [respell(rng, e, is_dir=(ROOT + "/" + os.path.normpath(e)) in dirs) for e in cfg[k]]
    argv, filecfg = channelise(rng, spelt, gen_cfg(rng, dirs, files, incl_pool))
    tree = dict(files)
    for lp, target in links.items():
        tree[lp] = {"symlink": target}
    for d in dirs:
        if d != ROOT:
            tree[d + "/"] = ""
    cfgpath = None
    if filecfg or rng.random() < 0.15:
        cfgpath = ROOT + "/" + rng.choice([".fortlsrc", ".fortls.json", ".fortls"])
        tree[cfgpath] = json.dumps(filecfg)
    argv = ["--disable_autoupdate", "--nthreads", str(rng.randint(1, 8))] + argv
    faults = []
    faulty = rng.random() < 0.15
    if faulty:
        faults.append({"op": 0, "seam": "open", "nth": rng.randint(0, 6),
                       "kind": rng.choice(["eacces", "enoent", "eio", "eio-read"])})
    ops = [gen.initialize(0, by=rng.choice(["rootPath", "rootUri"])), gen.initialized(),
           {"k": "obs", "what": "indexed"},
           gen.req(1, "workspace/symbol", {"query": "umod"}),
           gen.req(2, "shutdown"), gen.note("exit")]
    return {"argv": argv, "tree": tree, "ops": ops, "faults": faults, "oracles": ["c18"],
            "c18": cfg, "order": rng.choice([None, "rev", rng.randint(0, 9999)]),
            "pool": {"assign": [rng.randrange(8) for _ in range(rng.randint(1, 5))]},
            "faulty": faulty,
            # the reference model is computed from cfg: what carries cfg to the server is not shrunk
            "shrink_keep": {"argv": True, "tree": [cfgpath] if cfgpath else []}}


def nontrivial(o):
    return o.get("ops", 0) >= 3 and bool(o.get("obs"))
