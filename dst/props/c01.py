"""C01 - one response per request, in order; the server outlives handler failures."""
from __future__ import annotations

from .. import gen, model
from ..sim import ROOT
from . import base

ID = "C01"
LEVEL = "exploration"
TECHNIQUE = ("deterministic simulation with fault injection: seeded message histories against the "
             "real server loop, injected handler exceptions, disk faults/races, pool-worker "
             "failures, pipelined and truncated streams; history checker over request/response "
             "pairing, order, exactly-once and liveness (step clock)")
RULE = ("case = seeded history of 5-40 client messages (every handled method, unknown methods, "
        "malformed params, sync events, traffic before initialize and after shutdown) over 1-4 "
        "documents, with a swarm-chosen subset of fault kinds. Non-trivial = at least one fault "
        "fired or one non-success response was produced; distinct = distinct digest of the event "
        "log plus all output frames")
ASSUMPTIONS = [
    "client messages are requests or notifications with unique int/string ids (client responses "
    "and null ids are outside the statement and not generated)",
    "inbound framing is conforming (Content-Length first here; other orders belong to C16)",
    "output-side I/O errors are not injected",
    "liveness = every operation finishes within 2e7 interpreter steps (function entries + loop "
    "back-edges); ordinary operations use 1e3..1e6",
]
LEVEL_TEXT = ("Exploration by seeded search over histories and fault placements: each run is one "
              "exactly replayable execution of the real dispatcher; the oracle is a complete "
              "history check (response ids == request ids in delivery order, each emitted while "
              "its request was being handled, nothing for notifications, result xor well-formed "
              "error with the prescribed code, server alive until exit/EOF, bounded steps).")
LEVEL_NOTE = ("Sampling, not proof. Trusts the simulator's attribution of output frames to the "
              "operation being handled (SimWriter tags each write) and the independent frame reader.")

METHOD_TARGETS = {
    "textDocument/hover": ["LangServer.get_definition", "FortranFile.get_code_line",
                           "langserver.find_in_scope", "langserver.get_line_prefix",
                           "Variable.get_hover", "FortranAST.get_inner_scope", "langserver.path_from_uri"],
    "textDocument/definition": ["LangServer.get_definition", "LangServer._create_ref_link",
                                "langserver.get_var_stack", "utilities.find_in_scope"],
    "textDocument/implementation": ["LangServer.get_definition", "FortranFile.get_code_line"],
    "textDocument/references": ["LangServer.get_all_references", "LangServer.get_definition",
                                "langserver.path_to_uri"],
    "textDocument/documentHighlight": ["LangServer.get_all_references", "langserver.path_to_uri"],
    "textDocument/rename": ["LangServer.get_all_references", "LangServer.get_definition"],
    "textDocument/signatureHelp": ["FortranFile.get_code_line", "langserver.find_in_scope",
                                   "langserver.climb_type_tree"],
    "textDocument/completion": ["langserver.get_use_tree", "langserver.get_line_prefix",
                                "FortranAST.get_scopes", "langserver.get_var_stack"],
    "textDocument/codeAction": ["FortranAST.get_inner_scope"],
    "textDocument/documentSymbol": ["langserver.symbol_json", "FortranAST.get_scopes"],
    "workspace/symbol": ["langserver.find_in_workspace", "langserver.path_to_uri"],
    "textDocument/didOpen": ["FortranFile.load_from_disk", "FortranFile.parse",
                             "FortranAST.resolve_links", "LangServer.get_diagnostics",
                             "FortranFile.check_file", "FortranAST.resolve_includes",
                             "Scope.check_definitions", "Scope.check_use",
                             "LangServer.update_workspace_file"],
    "textDocument/didSave": ["FortranFile.load_from_disk", "FortranFile.parse",
                             "FortranAST.resolve_links", "FortranFile.check_file",
                             "LangServer.update_workspace_file", "Scope.check_use"],
    "textDocument/didClose": ["FortranFile.load_from_disk", "FortranFile.parse"],
    "textDocument/didChange": ["FortranFile.apply_change", "FortranFile.parse",
                               "FortranFile.get_code_line", "FortranAST.resolve_links",
                               "FortranAST.resolve_includes", "FortranFile.preprocess"],
    "initialize": ["LangServer._get_source_files", "LangServer._load_intrinsics",
                   "FortranAST.resolve_links", "FortranAST.resolve_includes", "FortranFile.parse",
                   "langserver.path_from_uri"],
}
EXCS = ["OSError", "MemoryError", "KeyError", "RecursionError", "ValueError", "IndexError",
        "AttributeError", "TypeError", "UnicodeDecodeError", "RuntimeError",
        "KeyError0", "ValueError0", "RuntimeError0", "OSError0"]

# strings that are legal in JSON text but awkward to carry around: lone surrogates (only expressible
# as \uXXXX escapes), NUL and other control characters, separators that some split functions treat
# as line breaks, characters outside the BMP, a long one
WEIRD = ["\ud83d", "a\udc00b", "\udfff\ud800", "\x00", "x\x1by", "\u2028", "\x85", "\U0001F600",
         "\ufeff", "é" * 700, "%", "\\", '"']

BAD_PARAMS = [
    None, [], [1, 2], "str", 5, {}, {"textDocument": 5}, {"textDocument": {}},
    {"textDocument": {"uri": 7}}, {"textDocument": {"uri": "file:///nonexistent/x.f90"}},
    {"textDocument": {"uri": "not a uri"}, "position": {"line": 0, "character": 0}},
    {"textDocument": {"uri": "%%"}, "position": None},
]


def plan(tier):
    n = len(eof_layout(tier))
    return {"cases": n + 6000, "wall_s": 140} if tier == "quick" else {"cases": n + 250000, "wall_s": 1700}


class IdSource:
    def __init__(self, rng):
        self.rng = rng
        self.n = -1
        self.used = set()

    def next(self):
        self.n += 1
        r = self.rng.random()
        if r < 0.75:
            return self.n
        if r < 0.9:
            return f"req-{self.n}"
        return self.rng.choice(["", "é"]) + f"{self.n}" + self.rng.choice(["", "x", " "])


def pick_docs(rng):
    docs = {}
    srcs = gen.corpus_sources()
    n = rng.randint(1, 4)
    for j in range(n):
        if rng.random() < 0.5:
            tag = gen.rand_ident(rng, 3) + str(j)
            docs[f"{ROOT}/{tag}.f90"] = gen.small_program(rng, tag, nonascii=rng.random() < 0.3)
        else:
            rel, text = rng.choice(srcs)
            name = rel.replace("/", "_")
            docs[f"{ROOT}/{name}"] = text
    return dict(sorted(docs.items()))


def bad_position(rng):
    return rng.choice([
        {"line": -1, "character": 0}, {"line": 0, "character": -5}, {"line": 10 ** 6, "character": 0},
        {"line": 0, "character": 10 ** 6}, {"line": 1.5, "character": 0}, {"line": "0", "character": 0},
        {"line": None, "character": None}, {}, None, {"line": 0}, {"line": 2 ** 70, "character": 2 ** 70},
        {"line": True, "character": False},
    ])


def eof_session():
    src = "module em\n  integer :: ev\ncontains\n  subroutine es()\n    ev = 1\n  end subroutine\nend module em\n"
    p = f"{ROOT}/em.f90"
    ops = [gen.initialize(1), gen.initialized(), gen.did_open(p, src),
           gen.positional(2, "textDocument/hover", p, 4, 5),
           gen.req("three", "no/such", {"x": "é"}),
           gen.positional(4, "textDocument/definition", p, 4, 5),
           gen.req(5, "workspace/symbol", {"query": "e"})]
    return {p: src}, ops


def eof_layout(tier):
    from .. import frames

    tree, ops = eof_session()
    offs = []
    for k, o in enumerate(ops):
        n = len(frames.encode_frame(o["m"]))
        step = 1 if tier == "thorough" else 3
        for c in range(0, n, step):
            offs.append((k, c))
    return offs


def gen_sched(g):
    lay = eof_layout(g["tier"])
    if g["i"] < len(lay):
        # enumerated crash points of the client: the stream ends at byte c of message k
        k, c = lay[g["i"]]
        tree, ops = eof_session()
        ops = ops[: k + 1]
        ops[k] = dict(ops[k], cut=c)
        return {"argv": ["--incremental_sync"], "tree": tree, "ops": ops, "faults": [], "buggify": [],
                "pool": {}, "chunks": [1] if g["i"] % 5 == 0 else None, "pipeline": True, "sync_kind": 2,
                "strict_edits": False, "swarm": ["eof-enum"]}
    rng = base.rng_for(g)
    ids = IdSource(rng)
    docs = pick_docs(rng)
    paths = list(docs)
    lines = {p: model.split_lines(t) for p, t in docs.items()}
    open_docs = {}
    incremental = rng.random() < 0.6
    argv = ["--incremental_sync"] if incremental else []
    argv += rng.choice([[], [], ["--notify_init"], ["--nthreads", str(rng.randint(1, 6))],
                        ["--disable_diagnostics"], ["--enable_code_actions"],
                        ["--use_signature_help"], ["--max_line_length", "40"]])
    swarm = {k: rng.random() < 0.5 for k in
             ("exc", "disk", "race", "pool", "eof", "chunk", "badparams", "unknown", "preinit")}
    if rng.random() < 0.25:
        swarm = {k: False for k in swarm}  # fault-free class
    ops = []
    faults = []
    bugs = []
    pool = {}

    def add(op):
        ops.append(op)
        return len(ops) - 1

    def rand_pos(p):
        ls = lines[p]
        li = rng.randrange(len(ls))
        return li, rng.randint(0, len(ls[li]))

    def positional_req():
        meth = rng.choice(gen.POSITIONAL_METHODS)
        p = rng.choice(paths)
        li, ch = rand_pos(p)
        op = gen.positional(ids.next(), meth, p, li, ch, rng=rng)
        if swarm["badparams"] and rng.random() < 0.25:
            op["m"]["params"]["position"] = bad_position(rng)
            if meth.endswith("codeAction"):
                op["m"]["params"]["range"] = rng.choice([None, {}, {"start": bad_position(rng),
                                                                   "end": bad_position(rng)}])
        return op

    def maybe_fault(k, method):
        if swarm["exc"] and rng.random() < 0.35 and method in METHOD_TARGETS:
            bugs.append({"target": rng.choice(METHOD_TARGETS[method]), "op": k,
                         "nth": rng.choice([0, 0, 0, 1, 2, 5]), "exc": rng.choice(EXCS)})
        if swarm["disk"] and rng.random() < 0.3 and method in (
                "textDocument/didOpen", "textDocument/didSave", "textDocument/didClose", "initialize"):
            kind = rng.choice(["enoent", "eacces", "eio", "torn", "eio-read", "eisdir", "emfile"])
            f = {"op": k, "seam": "open", "nth": rng.choice([0, 0, 1, 2]), "kind": kind}
            if kind == "torn":
                f["cut"] = rng.random()
            faults.append(f)
        if swarm["race"] and rng.random() < 0.2 and method in (
                "textDocument/didOpen", "textDocument/didSave", "textDocument/didClose", "initialize"):
            victim = rng.choice(paths)
            env = rng.choice([[gen.env_delete(victim)],
                              [gen.env_write(victim, gen.rand_line(rng) + "\n")]])
            faults.append({"op": k, "seam": rng.choice(["isfile", "open", "listdir"]),
                           "nth": rng.choice([0, 1, 2, 3]), "kind": "race", "env": env})

    # ---- optional traffic before initialize
    if swarm["preinit"] and rng.random() < 0.5:
        for _ in range(rng.randint(1, 3)):
            r = rng.random()
            if r < 0.5:
                add(positional_req())
            elif r < 0.7:
                add(gen.req(ids.next(), "workspace/symbol", {"query": "a"}))
            else:
                p = rng.choice(paths)
                add(gen.did_open(p, docs[p]))
    # ---- initialize
    init = gen.initialize(ids.next(), by=rng.choice(["rootPath", "rootUri", "both"]),
                          extra={"capabilities": rng.choice([{}, {}, gen.FULL_CAPABILITIES,
                                                             {"workspace": gen.FULL_CAPABILITIES["workspace"]}]),
                                 "processId": rng.choice([None, None, 4242]),
                                 "clientInfo": {"name": "sim", "version": "1"}})
    if swarm["badparams"] and rng.random() < 0.08:
        init["m"]["params"] = rng.choice([None, [], {"rootPath": 5}, {"rootUri": None}, {}])
        if init["m"]["params"] is None:
            del init["m"]["params"]
    k = add(init)
    maybe_fault(k, "initialize")
    if swarm["pool"] and rng.random() < 0.4:
        pool["exc"] = {str(rng.randrange(len(paths))): rng.choice(EXCS)}
    pool["assign"] = [rng.randrange(4) for _ in range(rng.randint(1, 4))]
    if rng.random() < 0.9:
        add(gen.initialized())
    # ---- body
    n = rng.randint(4, 36)
    for _ in range(n):
        r = rng.random()
        if r < 0.38:
            op = positional_req()
            k = add(op)
            maybe_fault(k, op["m"]["method"])
        elif r < 0.46:
            p = rng.choice(paths)
            op = gen.req(ids.next(), "textDocument/documentSymbol", {"textDocument": {"uri": gen.uri(p)}})
            k = add(op)
            maybe_fault(k, "textDocument/documentSymbol")
        elif r < 0.52:
            q = rng.choice(["", "a", "m_", "show", "é", None if swarm["badparams"] else "x", "t"])
            k = add(gen.req(ids.next(), "workspace/symbol", {"query": q}))
            maybe_fault(k, "workspace/symbol")
        elif r < 0.62:
            p = rng.choice(paths)
            k = add(gen.did_open(p, docs[p]))
            open_docs[p] = True
            maybe_fault(k, "textDocument/didOpen")
        elif r < 0.74:
            p = rng.choice(paths)
            if rng.random() < 0.85:
                ch = [gen.rand_change(rng, lines[p], 0.1)]
                if not incremental:
                    ch = [{"text": "\n".join(lines[p][: rng.randint(0, len(lines[p]))]) + "\n"
                           + gen.rand_line(rng)}]
                elif rng.random() < 0.3:
                    ch.append({"range": {"start": {"line": 0, "character": 0},
                                         "end": {"line": 0, "character": 0}}, "text": gen.rand_insert_text(rng)})
            else:
                ch = rng.choice([[], None, "x", [{"range": {"start": bad_position(rng),
                                                           "end": bad_position(rng)}, "text": "q"}],
                                 [{"range": {"start": {"line": 10 ** 5, "character": 0},
                                             "end": {"line": 10 ** 5, "character": 3}}, "text": "z"}]])
            k = add(gen.did_change(p, ch))
            maybe_fault(k, "textDocument/didChange")
        elif r < 0.8:
            p = rng.choice(paths)
            if rng.random() < 0.5:
                add(gen.env_write(p, docs[p] + gen.rand_line(rng) + "\n"))
            k = add(gen.did_save(p))
            maybe_fault(k, "textDocument/didSave")
        elif r < 0.84:
            p = rng.choice(paths)
            if rng.random() < 0.3:
                add(gen.env_delete(p))
            k = add(gen.did_close(p))
            maybe_fault(k, "textDocument/didClose")
        elif r < 0.9 and swarm["unknown"]:
            meth = rng.choice(["textDocument/foldingRange", "workspace/executeCommand", "foo",
                               "textDocument/", "$/progress", "Initialize", "", "exit2",
                               "textDocument/semanticTokens/full", "$/setTrace", "$/cancelRequest",
                               "$/fortls/status", "foo" + rng.choice(WEIRD), rng.choice(WEIRD)])
            if rng.random() < 0.6:
                k = add(gen.req(ids.next(), meth, rng.choice(BAD_PARAMS + [{"a": 1}, {"a": rng.choice(WEIRD)}])))
            else:
                k = add(gen.note(meth, rng.choice(BAD_PARAMS)))
            ops[k]["esc"] = True  # sent as \uXXXX escapes: lone surrogates have no UTF-8 form
        elif r < 0.92 and swarm["unknown"]:
            # well-formed requests of known methods whose *strings* are unusual but legal JSON
            w = rng.choice(WEIRD)
            p = rng.choice(paths)
            li, ch = rand_pos(p)
            op = rng.choice([
                gen.req(ids.next(), "workspace/symbol", {"query": w}),
                gen.req(ids.next(), "textDocument/rename",
                        {"textDocument": {"uri": gen.uri(p)}, "position": {"line": li, "character": ch},
                         "newName": "n" + w}),
                gen.req(ids.next(), "textDocument/hover",
                        {"textDocument": {"uri": gen.uri(p) + w}, "position": {"line": li, "character": ch}}),
            ])
            op["esc"] = True
            k = add(op)
            maybe_fault(k, op["m"]["method"])
        elif r < 0.94 and swarm["badparams"]:
            meth = rng.choice(sorted(METHOD_TARGETS))
            bp = rng.choice(BAD_PARAMS)
            if meth.startswith("textDocument/did"):
                op = gen.note(meth, bp)
            else:
                op = gen.req(ids.next(), meth, bp)
            if bp is None and rng.random() < 0.5:
                op["m"].pop("params", None)
            add(op)
        elif r < 0.97:
            add(gen.note(rng.choice(["$/cancelRequest", "$/setTrace", "workspace/didChangeConfiguration",
                                     "workspace/didChangeWatchedFiles", "initialized"]),
                         rng.choice([{"id": 1}, {"value": "off"}, {"settings": {}}, {"changes": []}, None])))
        else:
            add(gen.req(ids.next(), "shutdown"))
    # ---- ending
    if swarm["eof"] and rng.random() < 0.5:
        last = positional_req()
        last["cut"] = rng.randint(0, 400)
        add(last)
    else:
        if rng.random() < 0.7:
            add(gen.req(ids.next(), "shutdown"))
        if rng.random() < 0.9:
            add(gen.note("exit"))
            if rng.random() < 0.15:
                add(gen.req(ids.next(), "workspace/symbol", {"query": ""}))
    chunks = None
    pipeline = False
    if swarm["chunk"]:
        pipeline = rng.random() < 0.7
        chunks = rng.choice([None, [1], [rng.choice([2, 7, 64, 300, 4000]) for _ in range(rng.randint(1, 6))]])
    return {"argv": argv, "tree": docs, "ops": ops, "faults": faults, "buggify": bugs, "pool": pool,
            "chunks": chunks, "pipeline": pipeline, "sync_kind": 2 if incremental else 1,
            "strict_edits": False, "order": rng.choice([None, None, "rev", rng.randint(0, 999)]),
            "swarm": [k for k in sorted(swarm) if swarm[k]],
            # how many further messages of its own the client sends before it answers a request the
            # server sent to it (0: at once)
            "reply_delay": rng.choice([0, 0, 1, 2])}


def nontrivial(o):
    return bool(o["fired"]) or any(c.startswith("E") for c in o.get("classes", []))
