"""C09 - every positional request is total; every returned range lies in its document."""
from __future__ import annotations

import json
import os
import re

from .. import gen, model
from ..sim import ROOT
from . import base

ID = "C09"
LEVEL = "exploration"
TECHNIQUE = ("deterministic simulation: seeded edit/save/close/delete/create histories against the "
             "real server with bursts of positional requests after every step; oracle on the wire: "
             "no error response, protocol shape, every range validated against the client-model "
             "text in force at that instant")
RULE = ("case = workspace (sample-source directory groups, generated programs, intrinsic-name "
        "documents cycling through the bundled tables) x history of 3-14 steps (random and "
        "structural edits, truncations, saves, close, delete+close, create+open) x after each "
        "step a burst of positional requests of all nine methods at identifier starts/middles/"
        "ends, '(' ',' '%', one past end of line, one past end of file, far outside and (0,0); "
        "thorough tier additionally sweeps all positions of small documents. Non-trivial = at "
        "least one edit or deletion preceded a burst that produced a non-null result; distinct = "
        "distinct digest of event log and output")
ASSUMPTIONS = [
    "every disk change is followed by the matching notification before the next request (a range "
    "into a file changed behind the server's back cannot be blamed on the server)",
    "messages are not pipelined here, so each answer is judged against the text the client held "
    "when it was produced",
    "BMP characters only (UTF-16 offsets == code points)",
    "the (document x position x method) product is sampled; only the thorough tier sweeps all "
    "positions, and only for documents of at most 40 lines",
]
LEVEL_TEXT = ("Exploration over histories: what simulation adds to this input-quantified property "
              "is the state the server is in when asked (unsaved buffers, half-typed text, files "
              "whose dependencies just vanished, documents that shrank); answers are checked for "
              "totality, LSP result shape and coordinate validity against the client's own text "
              "after every single step of each history.")
LEVEL_NOTE = ("Sampling of positions and histories; the shape validator (dst/oracles.py) encodes the "
              "LSP 3.x result types of the nine methods; the client text model is dst/model.py.")

_names = None


def intrinsic_names():
    global _names
    if _names is None:
        with open(os.path.join(gen.CORPUS_DIR, "intrinsic_names.json")) as f:
            _names = json.load(f)
    return _names


def plan(tier):
    return {"cases": 2200, "wall_s": 150} if tier == "quick" else {"cases": 80000, "wall_s": 1700}


GROUPS = None


def groups():
    """corpus directory groups (files that reference each other live together)"""
    global GROUPS
    if GROUPS is None:
        g = {}
        for rel, text in gen.corpus().items():
            d = rel.split("/")[0] if "/" in rel else "."
            g.setdefault(d, {})[rel] = text
        GROUPS = dict(sorted(g.items()))
    return GROUPS


def interesting_positions(rng, lines, n):
    pts = []
    for li, ln in enumerate(lines):
        for m in re.finditer(r"[A-Za-z_]\w*", ln):
            pts.append((li, m.start()))
            pts.append((li, (m.start() + m.end()) // 2))
            pts.append((li, m.end()))
        for m in re.finditer(r"[(,%]", ln):
            pts.append((li, m.start()))
            pts.append((li, m.end()))
        pts.append((li, len(ln)))
        pts.append((li, len(ln) + 1))
        if li and lines[li - 1].rstrip().endswith("&"):
            # a continuation line: its first column and its leading blanks
            ind = len(ln) - len(ln.lstrip())
            pts += [(li, 0), (li, ind // 2), (li, ind)] * 2
    if len(pts) > n:
        pts = rng.sample(pts, n)
    pts += [(len(lines), 0), (len(lines) + 5, 3), (0, 0), (0, 10 ** 4), (10 ** 5, 0)][: max(2, n // 8)]
    return pts


def intrinsic_doc(rng, k):
    tab = intrinsic_names()
    names = tab["names"]
    mods = tab["modules"]
    chunk = [names[(k * 24 + j) % len(names)] for j in range(24)]
    modname = sorted(mods)[k % len(mods)]
    mem = mods[modname]
    mchunk = [mem[(k * 5 + j) % len(mem)] for j in range(5)] if mem else []
    ls = ["program intr", f"  use {modname}", f"  use {modname}, only: {', '.join(mchunk[:3])}" if mchunk else "",
          "  implicit none", "  integer :: a, b", "  real :: x"]
    for nm in chunk:
        style = rng.randrange(4)
        if style == 0:
            ls.append(f"  x = {nm}(a, b)")
        elif style == 1:
            ls.append(f"  call {nm}(x)")
        elif style == 2:
            ls.append(f"  {nm} :: q")
        else:
            ls.append(f"  {nm}")
    for nm in mchunk:
        ls.append(f"  a = {nm}")
    ls.append("end program intr")
    return "\n".join(ls) + "\n"


SNIPPETS = [
    # generic interface reached through a type-bound procedure and an ASSOCIATE name
    """module snip_gen
  implicit none
  interface gen_if
    module procedure gen_a, gen_b
  end interface gen_if
  type :: holder
    integer :: n
  contains
    procedure :: act => gen_if
    generic :: many => act, gen_if
  end type holder
contains
  subroutine gen_a(self, i)
    class(holder) :: self
    integer :: i
  end subroutine gen_a
  subroutine gen_b(self, r)
    class(holder) :: self
    real :: r
  end subroutine gen_b
  subroutine user(h)
    type(holder) :: h
    associate (g => gen_if, q => h%act)
      call g(h, 1)
      call h%act(1)
      call h%many(2.0)
    end associate
  end subroutine user
end module snip_gen
""",
    # deferred binding whose abstract interface has an undeclared dummy argument
    """module snip_def
  implicit none
  type, abstract :: shape
  contains
    procedure(area_if), deferred :: area
    procedure(area_if), deferred, pass(self) :: perim
  end type shape
  abstract interface
    function area_if(self, scale, extra) result(a)
      import :: shape
      class(shape), intent(in) :: self
      real, intent(in) :: scale
      real :: a
    end function area_if
  end interface
  type, extends(shape) :: square
    real :: side
  end type square
end module snip_def
""",
    # declarations and half-typed attribute lists outside any program unit
    """integer, p
real, dimension(3), allo
type(t), poin
integer, parameter ::
character(len=
use
""",
    # INCLUDE of files shorter / longer than the including one, and of a missing file
    """program snip_inc
  implicit none



  include 'snip_short.f90'
  include "snip_missing.f90"
  include 'snip_short.f90'
  integer :: after_inc
  after_inc = short_var
end program snip_inc
""",
    # select type / enum / block / where / forall / critical / labelled do
    """module snip_blk
  implicit none
  enum, bind(c)
    enumerator :: red = 1, green
  end enum
contains
  subroutine s(x, a)
    class(*) :: x
    real :: a(10)
    integer :: i
    select type (y => x)
    type is (integer)
      i = y
    class default
      i = 0
    end select
    blk: block
      real :: inner
      inner = a(1)
    end block blk
    where (a > 0) a = 1
    forall (i = 1:10) a(i) = i
    do 10 i = 1, 3
10  continue
    critical
      a = 0
    end critical
  end subroutine s
end module snip_blk
""",
    # procedure pointers, external, interfaces as arguments, operators
    """module snip_ptr
  implicit none
  interface operator(.dot.)
    module procedure dotp
  end interface
  interface assignment(=)
    module procedure asg
  end interface
  procedure(dotp), pointer :: pp => null()
  external :: ext_fun
  real :: ext_fun
contains
  function dotp(a, b) result(c)
    real, intent(in) :: a(:), b(:)
    real :: c
    c = sum(a * b)
  end function dotp
  subroutine asg(l, r)
    integer, intent(out) :: l
    logical, intent(in) :: r
    l = merge(1, 0, r)
  end subroutine asg
  subroutine takes(f, g)
    interface
      real function f(x)
        real :: x
      end function f
    end interface
    procedure(dotp) :: g
    print *, f(1.0), ext_fun(2.0), pp([1.0], [2.0])
  end subroutine takes
end module snip_ptr
""",
]


def chain_workspace(rng):
    """a -> b -> c -> main: c's type extends a type of a that it only sees through b's re-export;
    main reaches a's components through c's type.  Edits of a must reach c and main."""
    t = gen.rand_ident(rng, 3)
    pad = ["  ! filler %d" % k for k in range(rng.randint(3, 9))]
    a = ["module ca_%s" % t, "  implicit none"] + pad + [
        "  type :: ta_%s" % t, "    integer :: fld_%s" % t, "    real :: oth_%s" % t, "  contains",
        "    procedure :: meth_%s" % t, "  end type ta_%s" % t, "contains",
        "  subroutine meth_%s(self)" % t, "    class(ta_%s) :: self" % t, "  end subroutine meth_%s" % t,
        "end module ca_%s" % t]
    b = ["module cb_%s" % t, "  use ca_%s" % t, "  implicit none", "  integer :: bv_%s" % t, "end module cb_%s" % t]
    c = ["module cc_%s" % t, "  use cb_%s" % t, "  implicit none", "  type, extends(ta_%s) :: tc_%s" % (t, t),
         "    integer :: own_%s" % t, "  end type tc_%s" % t, "  type(tc_%s) :: cv_%s" % (t, t), "contains",
         "  subroutine cuse_%s()" % t, "    cv_%s%%fld_%s = 1" % (t, t), "    call cv_%s%%meth_%s()" % (t, t),
         "    print *, cv_%s%%ta_%s%%oth_%s" % (t, t, t), "  end subroutine cuse_%s" % t, "end module cc_%s" % t]
    m = ["program cm_%s" % t, "  use cc_%s" % t, "  implicit none", "  type(tc_%s) :: v" % t,
         "  v%%fld_%s = 2" % t, "  v%%oth_%s = 3.0" % t, "  call v%%meth_%s()" % t, "  v%%own_%s = 4" % t,
         "  associate (q => v%%fld_%s)" % t, "    print *, q", "  end associate", "end program cm_%s" % t]
    return {f"{ROOT}/ca_{t}.f90": "\n".join(a) + "\n", f"{ROOT}/cb_{t}.f90": "\n".join(b) + "\n",
            f"{ROOT}/cc_{t}.f90": "\n".join(c) + "\n", f"{ROOT}/cm_{t}.f90": "\n".join(m) + "\n"}


def structural_edit(rng, lines):
    """edits that make entities vanish, documents shrink, statements half-typed"""
    r = rng.random()
    n = len(lines)
    if rng.random() < 0.2 and n > 6:
        # remove a few lines near the top: everything declared below moves up
        a = rng.randint(1, min(4, n - 3))
        b = min(n - 1, a + rng.randint(1, 3))
        return {"range": {"start": {"line": a, "character": 0}, "end": {"line": b, "character": 0}}, "text": ""}
    if r < 0.3 and n > 2:
        a = rng.randrange(n - 1)
        b = min(n - 1, a + rng.randint(0, 6))
        return {"range": {"start": {"line": a, "character": 0}, "end": {"line": b, "character": 0}},
                "text": ""}
    if r < 0.45 and n > 3:
        a = rng.randrange(1, n)
        return {"range": {"start": {"line": a, "character": 0},
                          "end": {"line": n - 1, "character": len(lines[n - 1])}}, "text": ""}
    if r < 0.6:
        li = rng.randrange(n)
        ms = list(re.finditer(r"[A-Za-z_]\w*", lines[li]))
        if ms:
            m = rng.choice(ms)
            return {"range": {"start": {"line": li, "character": m.start()},
                              "end": {"line": li, "character": m.end()}},
                    "text": rng.choice(["", "zz9", m.group(0)[: len(m.group(0)) // 2], m.group(0) + "_x"])}
    conts = [li for li in range(1, n) if lines[li - 1].rstrip().endswith("&") and re.search(r"[A-Za-z_]\w{2,}", lines[li])]
    if conts and rng.random() < 0.25:
        # an in-line edit of a continuation line that makes it shorter (or longer): a name on it is
        # renamed; the statement's other lines are untouched
        li = rng.choice(conts)
        m = rng.choice(list(re.finditer(r"[A-Za-z_]\w{2,}", lines[li])))
        return {"range": {"start": {"line": li, "character": m.start()}, "end": {"line": li, "character": m.end()}},
                "text": rng.choice([m.group(0)[:1], m.group(0)[:2], "q", m.group(0) + "_longer_name"])}
    if r < 0.68:
        # a statement broken behind or in front of a name: '... &' / continuation line (sometimes
        # still empty), so that declared names end up on continuation lines too
        cands = [(li, pos) for li, ln in enumerate(lines) if "!" not in ln
                 for m in re.finditer(r"[A-Za-z_]\w*", ln) for pos in (m.end(), m.start()) if pos > 0]
        if cands:
            li, ch = rng.choice(cands)
            return {"range": {"start": {"line": li, "character": ch}, "end": {"line": li, "character": ch}},
                    "text": rng.choice(["&\n", " &\n", " &\n    ", "&\n  &", " &\n          "])}
    if r < 0.8:
        from .c03 import KEYWORD_LINES

        li = rng.randrange(n)
        return {"range": {"start": {"line": li, "character": 0}, "end": {"line": li, "character": 0}},
                "text": rng.choice(KEYWORD_LINES) + "\n"}
    return gen.rand_change(rng, lines, 0.02)


def gen_sched(g):
    rng = base.rng_for(g)
    i = g["i"]
    tree = {}
    kindr = rng.random()
    if kindr < 0.4:
        gname = rng.choice(sorted(groups()))
        for rel, text in groups()[gname].items():
            tree[f"{ROOT}/{rel}"] = text
        wk = "group:" + gname
    elif kindr < 0.6:
        for j in range(rng.randint(1, 3)):
            tag = gen.rand_ident(rng, 3) + str(j)
            tree[f"{ROOT}/{tag}.f90"] = gen.small_program(rng, tag)
        wk = "generated"
    elif kindr < 0.8:
        from .. import progmodel as pm

        ws = pm.new_workspace(rng)
        for n, t in pm.render_all(ws).items():
            tree[f"{ROOT}/{n}"] = t
        wk = "template"
    elif kindr < 0.86:
        tree.update(chain_workspace(rng))
        wk = "template"  # same treatment: all files open, bursts on every other file after an edit
    elif kindr < 0.93:
        k = rng.randrange(len(SNIPPETS))
        tree[f"{ROOT}/snip{k}.f90"] = SNIPPETS[k]
        tree[f"{ROOT}/snip_short.f90"] = "integer :: short_var\n"
        if rng.random() < 0.5:
            k2 = rng.randrange(len(SNIPPETS))
            tree[f"{ROOT}/snipb{k2}.f90"] = SNIPPETS[k2]
        wk = f"snippet:{k}"
    else:
        tree[f"{ROOT}/intr.f90"] = intrinsic_doc(rng, i)
        if rng.random() < 0.5:
            tag = gen.rand_ident(rng, 3)
            tree[f"{ROOT}/{tag}.f90"] = gen.small_program(rng, tag)
        wk = "intrinsics"
    srcs = [p for p in sorted(tree) if not p.endswith(".h")]
    thorough_sweep = g["tier"] == "thorough" and rng.random() < 0.1
    argv = ["--incremental_sync", "--disable_autoupdate"] + rng.choice(
        [[], ["--enable_code_actions"], ["--use_signature_help"], ["--lowercase_intrinsics"],
         ["--autocomplete_no_prefix"], ["--hover_signature"], ["--sort_keywords"],
         ["--autocomplete_name_only"], ["--max_line_length", "60", "--max_comment_line_length", "40"]])
    ops = [gen.initialize(0), gen.initialized()]
    nid = [0]
    disk = dict(tree)
    docs = {}

    def rid():
        nid[0] += 1
        return nid[0]

    def burst(p, n):
        lines = docs[p] if docs.get(p) is not None else model.lines_from_disk(disk[p].encode("utf-8")) \
            if p in disk else [""]
        if thorough_sweep and len(lines) <= 40:
            pts = [(li, ch) for li in range(len(lines) + 1)
                   for ch in range(len(lines[li]) + 2 if li < len(lines) else 1)]
            meths = [rng.choice(gen.POSITIONAL_METHODS)]
        else:
            pts = interesting_positions(rng, lines, n)
            meths = None
        for (li, ch) in pts:
            m = rng.choice(gen.POSITIONAL_METHODS) if meths is None else meths[0]
            ops.append(gen.positional(rid(), m, p, li, ch, rng=rng))
        if wk == "template":
            # member accesses resolve through other files (type of the variable, inherited
            # components): ask for each of them where it is defined and referenced
            mem = [(li, mm.start() + 1) for li, ln in enumerate(lines) for mm in re.finditer(r"%[A-Za-z_]", ln)]
            if len(mem) > 10:
                mem = rng.sample(mem, 10)
            for (li, ch) in mem:
                ops.append(gen.positional(rid(), rng.choice(["textDocument/definition", "textDocument/references",
                                                             "textDocument/implementation", "textDocument/hover"]),
                                          p, li, ch + 1, rng=rng))

    focus_after = []

    def focus(p, l0, l1):
        """questions about the names on and around lines l0..l1 of an open document - where they
        stand there and wherever else the document mentions them (stale positions show near edits)"""
        lines = docs.get(p)
        if not lines:
            return
        near = range(max(0, l0 - 2), min(len(lines), l1 + 3))
        names = set()
        pts = []
        for li in near:
            for m in re.finditer(r"[A-Za-z_]\w*", lines[li]):
                names.add(m.group(0).lower())
                pts.append((li, m.end()))
        for li, ln in enumerate(lines):
            if li in near:
                continue
            for m in re.finditer(r"[A-Za-z_]\w*", ln):
                if m.group(0).lower() in names and len(m.group(0)) > 2:
                    pts.append((li, m.start() + 1))
        if len(pts) > 12:
            pts = rng.sample(pts, 12)
        for (li, ch) in pts:
            meth = rng.choice(["textDocument/definition", "textDocument/definition", "textDocument/references",
                               "textDocument/hover", "textDocument/implementation", "textDocument/documentHighlight"])
            ops.append(gen.positional(rid(), meth, p, li, ch, rng=rng))

    def open_doc(p):
        ops.append(gen.did_open(p, disk[p]))
        docs[p] = model.lines_from_disk(disk[p].encode("utf-8"))

    first = rng.sample(srcs, min(len(srcs), rng.randint(1, 3)))
    if wk == "template":
        first = list(srcs)  # cross-file chains matter here: keep every file open
    for p in first:
        open_doc(p)
        burst(p, 24)
    nsteps = rng.randint(3, 14)
    created = 0
    faults = []
    restore = []
    for _ in range(nsteps):
        open_now = sorted(p for p in docs if docs[p] is not None)
        r = rng.random()
        if not open_now or r < 0.1:
            cands = [p for p in srcs if p in disk and docs.get(p) is None]
            if cands:
                p = rng.choice(cands)
                if rng.random() < 0.35 and len(disk[p]) > 40 and disk[p].isascii():
                    # the closed file was rewritten by another tool: fewer lines, the very same
                    # number of bytes (and, under a coarse or frozen file-system clock, the same
                    # time stamp)
                    old_lines = disk[p].split("\n")
                    keep = old_lines[: max(1, len(old_lines) // 2)]
                    room = len(disk[p]) - len("\n".join(keep)) - 1
                    if room >= 2:
                        disk[p] = "\n".join(keep) + "\n" + "! " + "x" * (room - 2)
                        ops.append(gen.env_write(p, disk[p]))
                open_doc(p)
                burst(p, 16)
            continue
        p = rng.choice(open_now)
        if rng.random() < 0.08 and p in disk:
            # another tool touches the file of an open (possibly unsaved) document and the client's
            # file watcher reports it; the editor keeps its buffer
            ops.append(gen.env_write(p, disk[p]))
            ops.append(gen.note("workspace/didChangeWatchedFiles",
                                {"changes": [{"uri": gen.uri(p), "type": rng.choice([1, 2, 2])}]}))
            burst(p, 10)
            continue
        if r < 0.55:
            ch = structural_edit(rng, docs[p])
            if ch.get("range") and rng.random() < 0.6:
                focus(p, ch["range"]["start"]["line"], ch["range"]["end"]["line"])  # before the edit
                focus_after.append((p, ch["range"]["start"]["line"], ch["range"]["start"]["line"] +
                                    ch.get("text", "").count("\n")))
            docs[p] = model.apply_change(docs[p], ch)
            changes = [ch]
            if rng.random() < 0.35:
                # several changes in one notification; the last ones are in-line edits of a
                # comment (or a plain in-line insertion) that need no re-parse on their own
                for _k in range(rng.randint(1, 2)):
                    cl = [j for j, ln in enumerate(docs[p]) if ln.lstrip().startswith("!")]
                    if cl and rng.random() < 0.8:
                        j = rng.choice(cl)
                        c2 = {"range": {"start": {"line": j, "character": len(docs[p][j])},
                                        "end": {"line": j, "character": len(docs[p][j])}}, "text": " x"}
                    else:
                        j = rng.randrange(len(docs[p]))
                        c2 = {"range": {"start": {"line": j, "character": len(docs[p][j])},
                                        "end": {"line": j, "character": len(docs[p][j])}}, "text": " "}
                    docs[p] = model.apply_change(docs[p], c2)
                    changes.append(c2)
            ops.append(gen.did_change(p, changes))
        elif r < 0.7:
            text = "\n".join(docs[p])
            disk[p] = text
            ops.append(gen.env_write(p, text))
            ops.append(gen.did_save(p))
            docs[p] = model.lines_from_disk(text.encode("utf-8"))
        elif r < 0.78:
            ops.append(gen.did_close(p))
            docs[p] = None
        elif r < 0.86:
            ops.append(gen.env_delete(p))
            ops.append(gen.did_close(p))
            docs[p] = None
            disk.pop(p, None)
        else:
            created += 1
            tag = f"nw{created}" + gen.rand_ident(rng, 2)
            np_ = f"{ROOT}/{tag}.f90"
            text = gen.small_program(rng, tag)
            disk[np_] = text
            srcs.append(np_)
            ops.append(gen.env_write(np_, text))
            open_doc(np_)
            if rng.random() < 0.4:
                # the first read of the new document fails or races with its (re)creation
                kind = rng.choice(["eio", "eacces", "eio-read", "vanish", "torn"])
                k_op = len(ops) - 1
                if kind == "vanish":
                    faults.append({"op": k_op, "seam": "open", "nth": 0, "kind": "race",
                                   "env": [gen.env_delete(np_), ]})
                    faults.append({"op": k_op, "seam": "open", "nth": 0, "kind": "enoent"})
                    restore.append((np_, text))
                elif kind == "torn":
                    faults.append({"op": k_op, "seam": "open", "nth": 0, "kind": "torn", "cut": rng.random()})
                else:
                    faults.append({"op": k_op, "seam": "open", "nth": 0, "kind": kind})
                docs[np_] = None  # the server could not read it: no text to compare ranges with
                ops.append(gen.req(rid(), "textDocument/documentSymbol", {"textDocument": {"uri": gen.uri(np_)}}))
            p = np_
        # the neighbourhood of the edit, asked again now that the text has changed
        while focus_after:
            fp, l0, l1 = focus_after.pop()
            if docs.get(fp) is not None:
                focus(fp, l0, l1)
        # burst on the touched document (if still there) and on one other
        if p in disk or docs.get(p) is not None:
            burst(p, 14)
        others = sorted(q for q in docs if docs[q] is not None and q != p)
        if others and wk == "template":
            # answers in *other* files that go through the edited one (inherited components,
            # re-exported types) are where stale coordinates show
            for q in others:
                burst(q, 7)
        elif others:
            burst(rng.choice(others), 8)
    ops += [gen.req(rid(), "shutdown"), gen.note("exit")]
    return {"argv": argv, "tree": tree, "ops": ops, "sync_kind": 2, "strict_edits": False, "faults": faults,
            "pipeline": False, "oracles": ["c09"], "workload": wk,
            "chunks": rng.choice([None, None, [4096], [64]]),
            "fsclock": rng.choice(["fine", "coarse", "frozen"])}


def nontrivial(o):
    cl = o.get("classes", [])
    return "R" in cl and o.get("ops", 0) > 20
