"""C17 - indexing never executes or writes anything on behalf of file contents."""
from __future__ import annotations

import json

from .. import gen, model
from ..sim import ROOT, CANON
from . import base

ID = "C17"
LEVEL = "exploration"
TECHNIQUE = ("deterministic simulation with hostile-content faults: interpreter audit events "
             "(exec/compile/spawn/connect/write/delete) monitored while real server code runs, "
             "plus byte-for-byte conservation of the simulated disk and canary files; hostile "
             "sources, headers, pp_defs and configuration delivered at start-up (forked pool "
             "workers inherit the monitor) and through didOpen/didChange/didSave, also torn")
RULE = ("case = workspace whose sources, #include'd headers, command-line/config pp_defs and "
        "configuration file carry hostile text (host-language expressions with canaries in macro "
        "bodies and #if/#elif conditions, shell metacharacters in names and ONLY lists, "
        "path/command look-alike config values) x delivery path (start-up pool, didOpen, "
        "didChange, didSave, torn prefix) x swarm options (debug_log, autoupdate with simulated "
        "release version and network states). Non-trivial = at least one #if/#elif condition "
        "containing a macro with a hostile body was evaluated by the preprocessor (counted from "
        "the generated text) ; distinct = distinct digest of event log and output")
ASSUMPTIONS = [
    "side effects through C extensions that raise no audit event are invisible (conservation of "
    "the sandbox directory still applies)",
    "the only allowed write is <root>/fortls_debug.log; pip and the version check are behind the "
    "network fakes and must not happen with --disable_autoupdate",
    "compile() events raised from inside the standard library's own traceback formatting (ast.parse "
    "of a program source line) are not evaluation of file content and are ignored; any exec of "
    "a code object that does not come from a real source file is flagged wherever it is raised",
]
LEVEL_TEXT = ("Exploration with an always-on monitor: the invariant is evaluated on every run of "
              "every property's campaign (cross-observations), and this dedicated campaign drives "
              "it with a hostile-content catalogue; detection is doubly independent (audit events "
              "and canary/conservation).")
LEVEL_NOTE = ("Trusts CPython's audit hooks (PEP 578) for eval/exec/compile/os.system/subprocess/"
              "socket/open events and the private tmpfs mount for conservation.")


def plan(tier):
    return {"cases": 4000, "wall_s": 150} if tier == "quick" else {"cases": 60000, "wall_s": 1700}


def payloads(rng, n):
    """python expressions that would leave a canary if evaluated"""
    c = f"{ROOT}/canary_{n}"
    c2 = f"{CANON}/outside_{n}"
    ex = [
        f"__import__('os').system('touch {c}')",
        f"open('{c}','w').close()",
        f"__import__('pathlib').Path('{c}').touch()",
        f"[__import__('os').mkdir('{c}') for _ in (1,)]",
        f"(lambda: open('{c}','a'))()",
        f"(y := open('{c}','w'))",
        f"__import__('subprocess').Popen(['touch','{c}'])",
        f"exec(\"open('{c}','w')\")",
        f"eval(\"open('{c2}','w')\")",
        f"().__class__.__base__.__subclasses__()",
        f"__import__('os').remove('{ROOT}/victim.f90')",
        f"__import__('shutil').rmtree('{ROOT}')",
        f"__import__('os').rename('{ROOT}/victim.f90','{c}')",
        f"f\"{{open('{c}','w')}}\"",
        f"__import__('socket').create_connection(('127.0.0.1', 9))",
        f"__builtins__['open']('{c}','w')",
        f"print(open('{c}','w'))",
        f"1 if open('{c}','w') else 0",
        f"getattr(__import__('os'),'system')('echo x > {c}')",
        f"globals().__setitem__('pwned', 1)",
    ]
    return rng.choice(ex), [c, c2]


def hostile_source(rng, n, tag, via_header=None):
    pay, canaries = payloads(rng, n)
    style = rng.randrange(6)
    ls = []
    if via_header:
        ls.append(f'#include "{via_header}"')
        cond = f"HOSTILE_{tag}"
    else:
        ls.append(f"#define HOSTILE_{tag} {pay}")
        cond = f"HOSTILE_{tag}"
    deep = rng.random() < 0.25
    if deep:
        # very long / deeply nested conditions around the hostile macro (evaluators that
        # recurse over the expression may take a different path when they run out of stack)
        n = rng.choice([150, 600, 1100, 1300, 2500])
        shape = rng.randrange(4)
        if shape == 0:
            cond = " + ".join(["1"] * n) + " + " + cond
        elif shape == 1:
            cond = cond + " || " + " || ".join(["0"] * n)
        elif shape == 2:
            cond = "(" * min(n, 180) + cond + ")" * min(n, 180)
        else:
            cond = " && ".join(["1"] * n) + " && !(" + cond + ")"
    if style == 0:
        ls += [f"#if {cond}", f"module a_{tag}", "end module", "#endif"]
    elif style == 1:
        ls += [f"#if defined(NOPE_{tag})", "#elif " + cond, f"module a_{tag}", "end module", "#else", "#endif"]
    elif style == 2:
        ls += [f"#if {cond} && 1", f"module a_{tag}", "end module", "#endif"]
    elif style == 3:
        ls += [f"#if !({cond}) || {cond} > 0", f"module a_{tag}", "end module", "#endif"]
    elif style == 4:
        ls += [f"#define WRAP_{tag} {cond}", f"#if WRAP_{tag}", f"module a_{tag}", "end module", "#endif"]
    else:
        ls += [f"#ifdef {cond}", f"#if {cond} == 1", "#endif", f"module a_{tag}", "end module", "#endif"]
    ls += [
        f"module h_{tag}",
        f"  use a_{tag}, only: `touch {canaries[0]}`, $(id), x; rm -rf /",
        "  implicit none",
        f"  character(len=*), parameter :: cmd = \"$(touch {canaries[0]})\"",
        f"  integer :: v_{tag} = {cond}",
        # hostile and plain text in every place where Fortran has an expression: constant
        # initialisers (with kinds, products, powers), bounds, lengths, DATA values
        f"  integer, parameter :: hk_{tag} = 1024",
        f"  integer, parameter :: hp_{tag} = 4*hk_{tag}*hk_{tag}*hk_{tag}",
        f"  integer(kind=8), parameter :: hq_{tag} = 2**40 * 3",
        f"  integer, parameter :: hr_{tag} = 2*{pay}",
        f"  integer(4), parameter :: hs_{tag} = ({pay})**2 / 3",
        f"  real, dimension({pay}) :: ha_{tag}",
        f"  character(len={pay}) :: hc_{tag}",
        f"  real(kind={pay}) :: hx_{tag}",
        f"  integer :: hd_{tag}",
        f"  data hd_{tag} /{pay}/",
        "contains",
        f"  subroutine s_{tag}()",
        "    integer :: i",
        f"    print *, v_{tag}, {cond}",
        f"    if ({pay}) then",
        f"      call s_{tag}({pay})",
        "    end if",
        f"    do i = 1, {pay}",
        "    end do",
        f"    select case ({pay})",
        "    end select",
        f"    ha_{tag}({pay}) = {pay}",
        "  end subroutine",
        f"end module h_{tag}",
    ]
    return "\n".join(ls) + "\n", pay, canaries


def known_options():
    """every option the command line of the tree under test knows (and therefore its configuration
    file): hostile values are tried on all of them, also on ones added after this was written"""
    try:
        from fortls.interface import cli

        return sorted({a.dest for a in cli("fortls")._actions
                       if a.option_strings and a.dest not in ("help", "version", "config")})
    except Exception:
        return ["debug_log", "hover_language", "nthreads", "source_dirs", "pp_defs"]


def hostile_value(rng, canary, k=None):
    """values a configuration could carry that do something if they are interpreted instead of used:
    shell/host-language text, factory specifications, file-creating handler descriptions, paths"""
    forms = hostile_forms(canary)
    return rng.choice(forms) if k is None else forms[k % len(forms)]


NFORMS = 16
ZOO_OPTS = 64  # room for options added later; indices beyond the known ones fall through


def hostile_forms(canary):
    return ([
        f"$(touch {canary})", f"`touch {canary}`", f"__import__('os').system('touch {canary}')",
        canary, [canary, f"; touch {canary}"],
        {"()": "os.mkdir", "path": canary},
        {"()": "os.system", "command": f"touch {canary}"},
        {"version": 1, "handlers": {"h": {"class": "logging.FileHandler", "filename": canary}},
         "root": {"handlers": ["h"], "level": "DEBUG"}},
        {"version": 1, "formatters": {"f": {"()": "os.mkdir", "path": canary}}},
        {"version": 1, "filters": {"f": {"()": "subprocess.Popen", "args": ["touch", canary]}}},
        {"__class__": "os.system", "args": [f"touch {canary}"]},
        {"py/object": "os.system", "py/reduce": [f"touch {canary}"]},
        f"!!python/object/apply:os.system ['touch {canary}']",
        {"file": canary, "mode": "w"}, {"filename": canary}, {"path": canary, "create": True},
    ])


def valid_forms(canary):
    """valid but unusual values, by JSON type (an option accepts the forms of its own type and rejects
    the rest): extreme numbers, switches, existing and not yet existing paths, the canary's own name"""
    return [0, 1, 999, 1001, 4000, 50000, 10 ** 9, -1, True, False, "", "x", canary, ".", "sub", "..",
            [], ["."], ["sub", canary], [".f90", ".F90"], {}, {"A": "1"}]


NVALID = 22


def zoo_sched(i):
    """enumerated: option number i % ZOO_OPTS of the tree under test x hostile form i // ZOO_OPTS,
    alone in an otherwise valid configuration file, debug log on"""
    opts = known_options()
    if i % ZOO_OPTS >= len(opts):
        return None
    opt = opts[i % ZOO_OPTS]
    c3 = f"{ROOT}/canary_zoo{i}"
    k = i // ZOO_OPTS
    cfg = {opt: hostile_forms(c3)[k] if k < NFORMS else valid_forms(c3)[(k - NFORMS) % NVALID]}
    if opt != "debug_log" and i % 2 == 0:
        cfg["debug_log"] = True
    name = f"{ROOT}/src_{i}.f90"
    src = f"module zoo_{i}\n  integer :: v\nend module zoo_{i}\n"
    if i % 61 == 3:
        # a source beyond every "only worth it for big files" threshold
        src = f"module zoo_{i}\n" + "".join(f"  integer :: v{j}\n" for j in range(6000)) + f"end module zoo_{i}\n"
    tree = {f"{ROOT}/victim.f90": "module victim\nend module victim\n", name: src, f"{ROOT}/sub/": "",
            f"{ROOT}/{['.fortlsrc', '.fortls.json', '.fortls'][i % 3]}": json.dumps(cfg)}
    ops = [gen.initialize(0), gen.initialized(), gen.did_open(name, src),
           gen.req(1, "textDocument/documentSymbol", {"textDocument": {"uri": gen.uri(name)}}),
           gen.positional(2, "textDocument/hover", name, 1, 14),
           gen.did_change(name, [{"text": src + "! x\n"}]),
           gen.req(3, "workspace/symbol", {"query": ""}), gen.req(4, "shutdown"), gen.note("exit")]
    return {"argv": ["--incremental_sync", "--disable_autoupdate"], "tree": tree, "ops": ops, "sync_kind": 2,
            "strict_edits": False, "buggify": [], "canaries": [c3], "network": "down", "release_version": None,
            "delivery": "config-zoo", "hostile_conditions": 0, "pool": {"assign": [0]}, "oracles": ["c17net"]}


def gen_sched(g):
    rng = base.rng_for(g)
    i = g["i"]
    if i < ZOO_OPTS * (NFORMS + NVALID):
        z = zoo_sched(i)
        if z is not None:
            return z
    tag = gen.rand_ident(rng, 4)
    tree = {f"{ROOT}/victim.f90": "module victim\nend module victim\n"}
    canaries = []
    nhost = 0
    delivery = rng.choice(["startup", "startup", "open", "change", "save", "torn", "config", "cli"])
    argv = ["--incremental_sync"]
    network = rng.choice(["down", "same", "newer", "garbage", "nokey", "pre"])
    release = None
    if rng.random() < 0.5:
        argv.append("--disable_autoupdate")
    elif rng.random() < 0.7:
        release = "1.0.0"
    if rng.random() < 0.3:
        argv.append("--debug_log")
    ops = []
    nid = [0]

    def rid():
        nid[0] += 1
        return nid[0]

    hdr = None
    if rng.random() < 0.35:
        pay, cs = payloads(rng, i * 10 + 7)
        hdr = f"h_{tag}.h"
        tree[f"{ROOT}/{hdr}"] = f"#define HOSTILE_{tag} {pay}\n#define OTHER_{tag} 1\n"
        canaries += cs
    src, pay, cs = hostile_source(rng, i * 10 + 1, tag, via_header=hdr)
    canaries += cs
    nhost += src.count("#if") + src.count("#elif")
    name = f"{ROOT}/hs_{tag}.F90"
    benign = f"module h_{tag}\n  integer :: v_{tag}\nend module h_{tag}\n"
    cfg = None
    if delivery in ("config", "cli") or rng.random() < 0.25:
        pay2, cs2 = payloads(rng, i * 10 + 3)
        canaries += cs2
        defs = {f"CFG_{tag}": pay2, "LIST;rm -rf /": "1", f"P_{tag}": "`id`"}
        src += f"#if CFG_{tag}\nmodule c_{tag}\nend module\n#endif\n"
        nhost += 1
        if delivery == "cli" or rng.random() < 0.3:
            argv += ["--pp_defs", json.dumps(defs)]
        else:
            cfg = {"pp_defs": defs, "include_dirs": [f"$(touch {cs2[0]})", "; id"],
                   "excl_paths": ["`id`", "|cat /etc/passwd"], "hover_language": "$(id)",
                   "nthreads": 2}
            text = json.dumps(cfg)
            if rng.random() < 0.4:
                # a configuration that is not valid JSON5 but reads like some other language's
                # literal (Python/YAML habits): must be rejected with a message, never interpreted
                pyexpr, cs3 = payloads(rng, i * 10 + 5)
                canaries += cs3
                text = rng.choice([
                    "# my settings\n" + text,
                    text.replace("}", ", \"nthreads\": True, \"x\": None}", 1).replace("{, ", "{", 1),
                    "{'pp_defs': {'HAVE': str(" + pyexpr + ")}, 'notify_init': True}",
                    "dict(pp_defs=dict(A=" + pyexpr + "))",
                    "pp_defs:\n  A: !!python/object/apply:os.system ['touch " + cs3[0] + "']\n",
                ])
            tree[f"{ROOT}/.fortlsrc"] = text
    elif rng.random() < 0.3:
        # a well-formed configuration file whose *values* are hostile, over every known option
        c3 = f"{ROOT}/canary_{i * 10 + 9}"
        canaries.append(c3)
        cfg = {}
        opts = known_options()
        # mostly one hostile value per file: a loader that rejects the whole file for one
        # ill-typed value would otherwise never let the others through
        for o in rng.sample(opts, min(len(opts), rng.choice([1, 1, 1, 2, 5]))):
            cfg[o] = hostile_value(rng, c3)
        if rng.random() < 0.3:
            o = rng.choice(opts)
            cfg.setdefault(o + rng.choice(["_config", "_file", "s"]), hostile_value(rng, c3))
        if rng.random() < 0.6:
            cfg["debug_log"] = True
        tree[f"{ROOT}/{rng.choice(['.fortlsrc', '.fortls.json', '.fortls'])}"] = json.dumps(cfg)
    lines = model.split_lines(src)
    if delivery == "startup" or delivery in ("config", "cli"):
        tree[name] = src
        ops += [gen.initialize(0), gen.initialized(), gen.did_open(name, src)]
    elif delivery == "open":
        ops += [gen.initialize(0), gen.initialized(), gen.env_write(name, src), gen.did_open(name, src)]
    elif delivery == "change":
        tree[name] = benign
        ops += [gen.initialize(0), gen.initialized(), gen.did_open(name, benign),
                gen.did_change(name, [{"text": src}])]
        # the same hostile text indexed again and again in the long-lived process (anything
        # remembered from the first, rejected, evaluation must not be trusted later)
        for k in range(rng.randint(0, 3)):
            ops.append(gen.did_change(name, [{"text": src + f"! again {k}\n"}]))
    elif delivery == "save":
        tree[name] = benign
        ops += [gen.initialize(0), gen.initialized(), gen.did_open(name, benign),
                gen.env_write(name, src), gen.did_save(name)]
    else:  # torn
        tree[name] = benign
        ops += [gen.initialize(0), gen.initialized(), gen.did_open(name, benign)]
        for _ in range(rng.randint(1, 4)):
            cut = rng.randint(1, len(src))
            ops += [gen.env_write(name, src[:cut]), gen.did_save(name)]
    # queries that walk the hostile text
    u = gen.uri(name)
    ops.append(gen.req(rid(), "textDocument/documentSymbol", {"textDocument": {"uri": u}}))
    for _ in range(rng.randint(4, 14)):
        li = rng.randrange(len(lines))
        ch = rng.randint(0, len(lines[li]))
        ops.append(gen.positional(rid(), rng.choice(gen.POSITIONAL_METHODS), name, li, ch, rng=rng))
    ops.append(gen.req(rid(), "workspace/symbol", {"query": ""}))
    if rng.random() < 0.5:
        ops += [gen.did_close(name)]
    ops += [gen.req(rid(), "shutdown"), gen.note("exit")]
    # failures inside the indexer while hostile text is being handled: error paths must not
    # write or execute either
    bugs = []
    if rng.random() < 0.3:
        for k, op in enumerate(ops):
            if op["k"] == "msg" and op["m"].get("method") in ("textDocument/didChange", "textDocument/didSave",
                                                              "textDocument/didOpen") and rng.random() < 0.5:
                bugs.append({"target": rng.choice(["FortranFile.parse", "FortranFile.preprocess",
                                                   "FortranAST.resolve_links", "FortranFile.check_file"]),
                             "op": k, "nth": 0, "exc": rng.choice(["ValueError", "RecursionError", "KeyError",
                                                                   "MemoryError", "TypeError"])})
    return {"argv": argv, "tree": tree, "ops": ops, "sync_kind": 2, "strict_edits": False, "buggify": bugs,
            "canaries": sorted(set(canaries)), "network": network, "release_version": release,
            "delivery": delivery, "hostile_conditions": nhost,
            "pool": {"assign": [rng.randrange(3) for _ in range(2)]},
            "oracles": ["c17net"]}


def nontrivial(o):
    return o.get("ops", 0) >= 6
