"""Defaults shared by the property modules (single-run cases)."""
from __future__ import annotations

import random

from .. import shrink as _shrink

HASHSEEDS = (0, 1, 2, 3)
TERMINATION_PROPS = {"C01", "C03", "C20"}  # properties whose statement includes bounded time


def rng_for(gen: dict) -> random.Random:
    # string seeding goes through SHA-512: independent of PYTHONHASHSEED
    return random.Random(f"{gen['prop']}:{gen['tier']}:{gen['seed']}:{gen['i']}")


def hashseed_for(i: int) -> int:
    return HASHSEEDS[i % len(HASHSEEDS)]


def outcome_from_summary(i, summ, prop, sched=None, key_extra=""):
    viol = list(summ.get("violations", []))
    status = summ.get("status")
    return {
        "i": i,
        "status": status,
        "error": summ.get("error"),
        "violations": viol,
        "digest": summ.get("digest", ""),
        "sched_digest": summ.get("sched_digest", ""),
        "fired": summ.get("fired", []),
        "armed": summ.get("armed", 0),
        "steps": summ.get("steps", 0) + summ.get("pool_steps", 0),
        "ops": summ.get("handled", 0),
        "reach": summ.get("reach", {}),
        "seam_calls": summ.get("seam_calls", {}),
        "classes": summ.get("classes", []),
        "mode": summ.get("mode"),
        "sched": sched if sched is not None else summ.get("sched"),
        "obs": summ.get("obs"),
        "runs": 1,
    }


def status_violation(summ):
    """a run that was killed by the wall-clock watchdog or died from a signal carries no
    violation record of its own: synthesise it (callers decide whether it reproduced)"""
    st = summ.get("status")
    if st in ("HANG", "CRASH") and not any(v.get("prop") == st for v in summ.get("violations", [])):
        summ.setdefault("violations", []).append(
            {"prop": st, "clause": "wall-watchdog" if st == "HANG" else f"signal-{summ.get('signal')}",
             "site": "child process", "detail": str(summ.get("error")), "op": -1})
    return summ


class SingleRun:
    """mixin-style helper: a property module sets ID and gen_sched(gen)."""

    def __init__(self, mod):
        self.mod = mod

    def run_case(self, ctx, i):
        gen = {"prop": self.mod.ID, "tier": ctx.tier, "seed": ctx.seed, "i": i}
        h = getattr(self.mod, "hashseed_for", hashseed_for)(i)
        summ = ctx.farm.run({"t": "run", "gen": gen, "echo_sched": i < 4}, h)
        if summ.get("status") in ("HANG", "CRASH"):
            again = ctx.farm.run({"t": "run", "gen": gen}, h)
            if again.get("status") == summ["status"]:
                status_violation(summ)
            else:
                # the wall-clock watchdog is the one verdict that rests on real time: a run it
                # killed on a loaded machine and that completes when run again is that completed
                # run (runs are deterministic), not a finding and not a harness failure
                again["watchdog_retry"] = summ["status"]
                summ = again
        out = outcome_from_summary(i, summ, self.mod.ID)
        out["hashseed"] = h
        out["gen"] = gen
        return out

    def replay(self, ctx, obj):
        summ = status_violation(ctx.farm.run({"t": "run", "sched": obj["sched"]}, obj["hashseed"]))
        out = outcome_from_summary(obj.get("case", -1), summ, self.mod.ID, sched=obj["sched"])
        out["hashseed"] = obj["hashseed"]
        return out

    def minimise(self, ctx, outcome, sig, budget_s):
        sched = outcome.get("sched")
        if sched is None:
            sched = self.mod.gen_sched(outcome["gen"])
        h = outcome["hashseed"]

        def runner(s):
            return status_violation(ctx.farm.run({"t": "run", "sched": s}, h))

        small, runs = _shrink.shrink(sched, sig, runner, budget_s=budget_s)
        return {"hashseed": h, "sched": small, "shrink_runs": runs,
                "ops_before": len(sched["ops"]), "ops_after": len(small["ops"])}


class CaseInWorker:
    """multi-run cases whose runs share one hash seed: generated, executed and compared inside
    the worker (module functions gen_case(gen) and exec_case(case, run_fn))."""

    def __init__(self, mod):
        self.mod = mod

    def _outcome(self, i, summ, h, gen=None, case=None):
        out = outcome_from_summary(i, summ, self.mod.ID)
        out["hashseed"] = h
        out["gen"] = gen
        out["case"] = case if case is not None else summ.get("case")
        out["runs"] = summ.get("runs", 1)
        out["sample"] = summ.get("sample")
        out["visible"] = summ.get("visible")
        out["sched"] = None
        return out

    def run_case(self, ctx, i):
        gen = {"prop": self.mod.ID, "tier": ctx.tier, "seed": ctx.seed, "i": i}
        h = getattr(self.mod, "hashseed_for", hashseed_for)(i)
        summ = ctx.farm.run({"t": "case", "prop": self.mod.ID, "gen": gen, "echo_case": i < 3}, h)
        return self._outcome(i, summ, h, gen=gen)

    def replay(self, ctx, obj):
        summ = ctx.farm.run({"t": "case", "prop": self.mod.ID, "case": obj["case_obj"]}, obj["hashseed"])
        return self._outcome(obj.get("case", -1), summ, obj["hashseed"], case=obj["case_obj"])

    def unminimised(self, o):
        case = o.get("case")
        if case is None:
            case = self.mod.gen_case(o["gen"])
        return {"hashseed": o["hashseed"], "case_obj": case}

    def minimise(self, ctx, outcome, sig, budget_s):
        case = outcome.get("case")
        if case is None:
            case = self.mod.gen_case(outcome["gen"])
        h = outcome["hashseed"]
        if hasattr(self.mod, "shrink_case"):
            def runner(c):
                return ctx.farm.run({"t": "case", "prop": self.mod.ID, "case": c}, h)

            case = self.mod.shrink_case(case, sig, runner, budget_s)
        return {"hashseed": h, "case_obj": case}
