"""Independent LSP base-protocol codec and file-URI codec.

Nothing here imports fortls.  The writer produces what a conforming client
puts on the wire; the reader accepts only what a conforming reader could
decode and reports *why* it could not otherwise.
"""
from __future__ import annotations

import json

HDR_STYLES = ("cl-first", "ct-first", "cl-only", "ct-first-v2")


class FrameError(Exception):
    def __init__(self, clause: str, detail: str, offset: int):
        super().__init__(f"{clause}: {detail} @byte {offset}")
        self.clause = clause
        self.detail = detail
        self.offset = offset


def encode_body(obj, esc: bool = False) -> bytes:
    """JSON text of obj in UTF-8; esc=True => \\uXXXX escapes for non-ASCII."""
    try:
        return json.dumps(obj, ensure_ascii=esc, separators=(",", ":")).encode("utf-8")
    except UnicodeEncodeError:
        # lone surrogates have no UTF-8 form: such strings can only travel as \uXXXX escapes
        return json.dumps(obj, ensure_ascii=True, separators=(",", ":")).encode("utf-8")


def encode_frame(obj, hdr: str = "cl-first", esc: bool = False) -> bytes:
    body = encode_body(obj, esc)
    cl = b"Content-Length: " + str(len(body)).encode("ascii") + b"\r\n"
    if hdr == "cl-first":
        head = cl + b"Content-Type: application/vscode-jsonrpc; charset=utf-8\r\n"
    elif hdr == "ct-first":
        head = b"Content-Type: application/vscode-jsonrpc; charset=utf-8\r\n" + cl
    elif hdr == "ct-first-v2":
        # the spelling vscode-languageclient used for years
        head = b"Content-Type: application/vscode-jsonrpc; charset=utf8\r\n" + cl
    elif hdr == "cl-only":
        head = cl
    else:
        raise ValueError(hdr)
    return head + b"\r\n" + body


def _no_const(name):
    raise ValueError(f"non-JSON constant {name}")


def strict_loads(text: str):
    return json.loads(text, parse_constant=_no_const)


class FrameReader:
    """Incremental strict reader for the server->client direction."""

    def __init__(self):
        self.buf = bytearray()
        self.consumed = 0  # absolute offset of buf[0]
        self.frames = []  # decoded objects
        self.raw_lengths = []  # (header_len, body_len)
        self.error: FrameError | None = None

    def feed(self, data: bytes):
        """Append bytes; return list of newly decoded objects. After an error
        nothing more is decoded (the stream is desynchronised)."""
        out = []
        if self.error is not None:
            return out
        self.buf += data
        try:
            while True:
                obj = self._one()
                if obj is None:
                    break
                out.append(obj)
        except FrameError as e:
            self.error = e
        return out

    def _one(self):
        buf = self.buf
        if not buf:
            return None
        end = buf.find(b"\r\n\r\n")
        if end < 0:
            # detect garbage early: a header block is ASCII and short
            if len(buf) > 4096:
                raise FrameError("header", "no header terminator in 4 KiB", self.consumed)
            return None
        head = bytes(buf[:end])
        try:
            head_s = head.decode("ascii")
        except UnicodeDecodeError:
            raise FrameError("header", "non-ASCII byte in header block", self.consumed)
        length = None
        for line in head_s.split("\r\n"):
            if "\n" in line or "\r" in line:
                raise FrameError("header", "bare CR or LF in header line", self.consumed)
            if ":" not in line:
                raise FrameError("header", f"not a header field: {line[:40]!r}", self.consumed)
            name, _, value = line.partition(":")
            if name.strip().lower() == "content-length":
                v = value.strip()
                if not v.isdigit():
                    raise FrameError("header", f"Content-Length not a number: {v!r}", self.consumed)
                if length is not None:
                    raise FrameError("header", "duplicate Content-Length", self.consumed)
                length = int(v)
            elif name.strip().lower() != "content-type":
                raise FrameError("header", f"unknown header {name!r}", self.consumed)
        if length is None:
            raise FrameError("header", "missing Content-Length", self.consumed)
        start = end + 4
        if len(buf) < start + length:
            return None
        body = bytes(buf[start : start + length])
        try:
            text = body.decode("utf-8")
        except UnicodeDecodeError as e:
            raise FrameError(
                "length", f"body of {length} bytes is not UTF-8 ({e.reason})", self.consumed + start
            )
        try:
            obj = strict_loads(text)
        except ValueError as e:
            raise FrameError(
                "length", f"body of declared length {length} is not one JSON text: {e}",
                self.consumed + start,
            )
        if not isinstance(obj, dict):
            raise FrameError("payload", "top-level JSON value is not an object", self.consumed + start)
        del buf[: start + length]
        self.consumed += start + length
        self.frames.append(obj)
        self.raw_lengths.append((start, length))
        return obj

    def finish(self):
        """Call at end of stream: leftover bytes are an error."""
        if self.error is None and self.buf:
            self.error = FrameError(
                "remainder", f"{len(self.buf)} trailing bytes: {bytes(self.buf[:60])!r}", self.consumed
            )
        return self.error


# --------------------------------------------------------------------------
# file URIs (RFC 8089 / RFC 3986), independent of urllib.parse

_UNRESERVED = frozenset(
    b"ABCDEFGHIJKLMNOPQRSTUVWXYZabcdefghijklmnopqrstuvwxyz0123456789-._~"
)
# characters a path segment may carry unescaped besides unreserved (sub-delims, ':', '@')
_PCHAR_EXTRA = frozenset(b"!$&'()*+,;=:@")


def uri_encode(path: str, style: str = "min") -> str:
    """Absolute POSIX path -> file URI.

    style: 'min'   escape only what RFC 3986 requires in a path
           'lower' like min with lower-case hex digits
           'over'  escape everything except unreserved and '/'
    """
    out = []
    for b in path.encode("utf-8"):
        if b == 0x2F or b in _UNRESERVED or (style in ("min", "lower") and b in _PCHAR_EXTRA):
            out.append(chr(b))
        else:
            out.append(("%%%02x" if style == "lower" else "%%%02X") % b)
    return "file://" + "".join(out)


def uri_decode(uri: str) -> str:
    if not uri.startswith("file://"):
        raise ValueError(f"not a file URI: {uri!r}")
    rest = uri[len("file://") :]
    # authority (empty or 'localhost') up to the first '/'
    if not rest.startswith("/"):
        auth, slash, rest = rest.partition("/")
        if auth not in ("", "localhost"):
            raise ValueError(f"non-local authority {auth!r}")
        rest = "/" + rest
    raw = bytearray()
    i = 0
    while i < len(rest):
        c = rest[i]
        if c == "%":
            hx = rest[i + 1 : i + 3]
            if len(hx) != 2:
                raise ValueError("truncated percent escape")
            raw.append(int(hx, 16))
            i += 3
        else:
            raw += c.encode("utf-8")
            i += 1
    return raw.decode("utf-8")
