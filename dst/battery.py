"""Read-only query battery: a deterministic function of the client's model
(files on disk + open documents).  Expanded by the driver at the point where
the `battery` op is reached, so that it stays meaningful when the shrinker
removes earlier operations."""
from __future__ import annotations

import re

from . import frames, model
from .sim import ROOT

IDENT = re.compile(r"[A-Za-z_][A-Za-z0-9_]*")
UNIT = re.compile(r"^\s*(?:module|program|submodule\s*\([^)]*\)|subroutine|function|type(?:\s*,[^:]*)?\s*::)\s*([A-Za-z_]\w*)",
                  re.I)
SRC = re.compile(r"\.(f|f77|f90|f95|f03|f05|f08|f18|for|fpp)$", re.I)

ALL_METHODS = ["definition", "hover", "references", "completion", "signatureHelp",
               "implementation", "documentHighlight"]


def req(i, method, params):
    return {"jsonrpc": "2.0", "id": i, "method": method, "params": params}


def note(method, params):
    return {"jsonrpc": "2.0", "method": method, "params": params}


def doc_lines(driver, path):
    d = driver.docs.get(path)
    if d is not None and d["lines"] is not None:
        return d["lines"]
    if path in driver.world.files:
        return model.lines_from_disk(driver.world.files[path])
    return []


def expand(spec: dict, driver) -> list[dict]:
    uri_style = spec.get("uri_style", "min")
    methods = spec.get("methods", ALL_METHODS)
    max_pos = spec.get("max_pos_per_file", 60)
    files = sorted(p for p in driver.world.files
                   if p.startswith(ROOT + "/") and (SRC.search(p) or p in driver.docs)
                   and not any(p.endswith(x) for x in spec.get("skip_suffixes", [])))
    extra = spec.get("extra_files", [])
    for p in extra:
        if p not in files:
            files.append(p)
    ops = []
    nid = spec.get("first_id", 100000)
    base = driver.pos

    def add(m, label):
        nonlocal nid
        k = base + len(ops)
        ops.append({"k": "msg", "m": m})
        driver.battery_labels[k] = label

    def rel(p):
        return p[len(ROOT) + 1:] if p.startswith(ROOT + "/") else p

    if spec.get("resave", True):
        for p in sorted(driver.docs):
            if p in driver.world.files:
                add(note("textDocument/didSave", {"textDocument": {"uri": frames.uri_encode(p, uri_style)}}),
                    f"didSave@{rel(p)}")
    names = set()
    for p in files:
        uri = frames.uri_encode(p, uri_style)
        add(req(nid, "textDocument/documentSymbol", {"textDocument": {"uri": uri}}),
            f"documentSymbol@{rel(p)}")
        nid += 1
        for ln in doc_lines(driver, p):
            m = UNIT.match(ln)
            if m:
                names.add(m.group(1).lower())
    queries = [""]
    for n in sorted(names):
        for ln_ in (1, 3):
            q = n[:ln_]
            if q not in queries:
                queries.append(q)
    for q in queries[: spec.get("max_ws_queries", 12)]:
        add(req(nid, "workspace/symbol", {"query": q}), f"workspace/symbol?{q}")
        nid += 1
    for p in files:
        uri = frames.uri_encode(p, uri_style)
        lines = doc_lines(driver, p)
        occ = []
        for li, ln in enumerate(lines):
            for m in IDENT.finditer(ln):
                occ.append((li, m.start(), m.end()))
        # member accesses go through links into other scopes and files: always asked, on top of
        # the sample of all identifiers
        members = [o for o in occ if o[1] > 0 and lines[o[0]][o[1] - 1] == "%"]
        if len(occ) > max_pos:
            step = len(occ) / max_pos
            occ = [occ[int(j * step)] for j in range(max_pos)]
        if len(members) > max_pos:
            step = len(members) / max_pos
            members = [members[int(j * step)] for j in range(max_pos)]
        occ = occ + [o for o in members if o not in occ]
        for (li, s_, e_) in members[: max_pos // 2]:
            # completion of the component list right behind the '%'
            add(req(nid, "textDocument/completion", {"textDocument": {"uri": uri},
                                                      "position": {"line": li, "character": s_}}),
                f"completion@{rel(p)}:{li}:{s_}")
            nid += 1
        for li, s, e in occ:
            mid = s + (1 if e - s > 1 else 0)
            for meth in methods:
                if meth == "completion":
                    pos = {"line": li, "character": e}
                elif meth == "signatureHelp":
                    ln = lines[li]
                    j = ln.find("(", e)
                    if j < 0 or ln[e:j].strip():
                        continue
                    pos = {"line": li, "character": j + 1}
                else:
                    pos = {"line": li, "character": mid}
                params = {"textDocument": {"uri": uri}, "position": pos}
                if meth == "references":
                    params["context"] = {"includeDeclaration": True}
                add(req(nid, "textDocument/" + meth, params),
                    f"{meth}@{rel(p)}:{li}:{pos['character']}")
                nid += 1
    if spec.get("final_resave", False):
        for p in sorted(driver.docs):
            if p in driver.world.files:
                add(note("textDocument/didSave", {"textDocument": {"uri": frames.uri_encode(p, uri_style)}}),
                    f"didSave2@{rel(p)}")
    return ops
