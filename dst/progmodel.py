"""Template family of small inter-dependent multi-file Fortran workspaces with
semantic edit operators (used as history steps by C10 and as workspaces by C15).

A workspace is a dict  file name -> unit  (plain dicts, JSON-able) and is
rendered to text deterministically.  Operators mutate the structure; dangling
references after an operator are intended (that is what an editing session
looks like between two consistent states).  Top-level unit names are unique by
construction; macro names are private to their file."""
from __future__ import annotations

import copy


def ident(rng, n=3):
    a = "abcdefghijklmnopqrstuvwxyz"
    return "".join(rng.choice(a) for _ in range(n))


# ------------------------------------------------------------------ construction


def new_workspace(rng, nmods=None):
    tag = ident(rng, 2)
    ws = {"tag": tag, "files": {}, "counter": 0, "tabs": rng.random() < 0.15}
    nmods = nmods or rng.randint(2, 4)
    mods = []
    for i in range(nmods):
        name = f"m{i}{tag}"
        unit = new_module(rng, ws, name, mods)
        ws["files"][f"{name}.f90"] = unit
        mods.append(name)
    if rng.random() < 0.15:
        # the project's own (vendored / stub) copy of a module that the server also bundles as an
        # intrinsic one: the workspace's definition is the one the project means
        name = rng.choice(["omp_lib", "openacc", "iso_c_binding", "ieee_arithmetic", "iso_fortran_env"])
        ws["files"][f"{name}.f90"] = new_module(rng, ws, name, [])
        mods.append(name)
    # a program using the last modules
    ws["files"][f"main{tag}.f90"] = new_program(rng, ws, f"main{tag}", mods)
    if rng.random() < 0.6:
        inc = f"frag{tag}_inc.f90"
        ws["files"][inc] = {"kind": "include", "vars": [new_var(rng, ws, "integer"), new_var(rng, ws, "real")]}
        mainu = ws["files"][f"main{tag}.f90"]
        mainu["includes"].append(inc)
        if rng.random() < 0.5:
            # the fragment also declares a type; the including program extends it and uses the
            # inherited components (links that lead into the fragment's own syntax tree)
            ft = new_type(rng, ws)
            ws["files"][inc]["types"] = [ft]
            lt = new_type(rng, ws, ft["name"])
            mainu["local_types"] = [lt]
            ov = f"f{uid(ws)}{ident(rng, 1)}"
            mainu["vars"].append({"name": ov, "type": f"type({lt['name']})", "attrs": [], "doc": False})
            mainu["stmts"] += [f"{ov}%{c['name']} = 3" for c in ft["comps"][:2] + lt["comps"][:1]]
    if rng.random() < 0.5:
        m = rng.choice(mods)
        mu = ws["files"][f"{m}.f90"]
        pname = f"smp{uid(ws)}{tag}"
        mu["mod_procs"].append(pname)
        su = {"kind": "submodule", "name": f"sub{tag}", "parent": m,
              "procs": [pname], "vars": [new_var(rng, ws, "integer")], "types": []}
        if mu["types"] and rng.random() < 0.6:
            # a type local to the submodule that extends a type of its parent module (reached by
            # host association through the submodule's ancestor only)
            pt = rng.choice(mu["types"])
            st = new_type(rng, ws, pt["name"])
            su["types"].append(st)
            ov = f"s{uid(ws)}{ident(rng, 1)}"
            su["vars"].append({"name": ov, "type": f"type({st['name']})", "attrs": [], "doc": False})
            su["stmts"] = [f"{ov}%{c['name']} = 1" for c in (pt["comps"][:1] + st["comps"][:1])]
        ws["files"][f"sub{tag}.f90"] = su
    if rng.random() < 0.5:
        ws["files"][f"pp{tag}.F90"] = new_ppfile(rng, ws, f"pp{tag}")
        if rng.random() < 0.5:
            # a header the preprocessed file #includes by its bare name; whoever lays the workspace out
            # decides whether it sits next to it or in the directory of some other source
            ws["files"][f"hdr{tag}.h"] = {"kind": "header", "macros": [[f"FROM_HDR_{tag.upper()}", "1"]]}
            ws["files"][f"pp{tag}.F90"]["header"] = f"hdr{tag}.h"
            if rng.random() < 0.6:
                # a second preprocessed source (possibly in another directory) without that header
                ws["files"][f"pq{tag}.F90"] = new_ppfile(rng, ws, f"pq{tag}")
    return ws


def uid(ws):
    ws["counter"] += 1
    return ws["counter"]


def new_var(rng, ws, typ=None, attrs=None):
    typ = typ or rng.choice(["integer", "real", "real(8)", "logical", "character(len=10)"])
    return {"name": f"v{uid(ws)}{ident(rng, 2)}", "type": typ, "attrs": attrs or [],
            "doc": rng.random() < 0.2}


def new_type(rng, ws, parent=None):
    n = uid(ws)
    t = {"name": f"t{n}{ident(rng, 2)}", "parent": parent,
         "comps": [new_var(rng, ws, rng.choice(["integer", "real"])) for _ in range(rng.randint(1, 3))],
         "binds": [], "private": False}
    return t


def new_proc(rng, ws, kind=None):
    kind = kind or rng.choice(["subroutine", "function"])
    n = uid(ws)
    return {"name": f"p{n}{ident(rng, 2)}", "kind": kind,
            "args": [new_var(rng, ws, rng.choice(["integer", "real"]), ["intent(in)"])
                     for _ in range(rng.randint(0, 2))],
            "locals": [new_var(rng, ws, "integer")], "calls": [], "uses_vars": [], "doc": rng.random() < 0.4}


def new_module(rng, ws, name, earlier):
    u = {"kind": "module", "name": name, "uses": [], "private_default": rng.random() < 0.25,
         "vars": [new_var(rng, ws) for _ in range(rng.randint(1, 3))], "types": [], "procs": [],
         "mod_procs": [], "public": [], "long_line": rng.random() < 0.15,
         "externals": [f"ef{uid(ws)}{ident(rng, 2)}"] if rng.random() < 0.3 else []}
    if earlier and rng.random() < 0.8:
        m = rng.choice(earlier)
        src = ws["files"][f"{m}.f90"]
        use = {"mod": m, "only": None}
        cands = [t["name"] for t in src["types"]] + [v["name"] for v in src["vars"]] + \
                [p["name"] for p in src["procs"]]
        if cands and rng.random() < 0.6:
            picked = rng.sample(cands, min(len(cands), rng.randint(1, 3)))
            use["only"] = [[(f"r{uid(ws)}{c}" if rng.random() < 0.25 else c), c] for c in picked]
        u["uses"].append(use)
    # types, some extending a type of a used module
    for _ in range(rng.randint(1, 2)):
        parent = None
        if u["uses"] and rng.random() < 0.6:
            src = ws["files"][f"{u['uses'][0]['mod']}.f90"]
            acc = accessible_types(u["uses"][0], src, ws)
            if acc:
                parent = rng.choice(acc)
        elif u["types"] and rng.random() < 0.4:
            parent = u["types"][-1]["name"]
        u["types"].append(new_type(rng, ws, parent))
    for _ in range(rng.randint(1, 3)):
        p = new_proc(rng, ws)
        u["procs"].append(p)
    # bindings and variables of derived type
    for t in u["types"]:
        if u["procs"] and rng.random() < 0.6:
            p = rng.choice(u["procs"])
            t["binds"].append([f"b{uid(ws)}{ident(rng, 1)}", p["name"]])
        if rng.random() < 0.7:
            u["vars"].append({"name": f"o{uid(ws)}{ident(rng, 2)}", "type": f"type({t['name']})", "attrs": [],
                              "doc": False})
    for p in u["procs"]:
        p["uses_vars"] = [v["name"] for v in rng.sample(u["vars"], min(len(u["vars"]), 2))]
        others = [q["name"] for q in u["procs"] if q is not p and q["kind"] == "subroutine" and not q["args"]]
        if others and rng.random() < 0.5:
            p["calls"].append(rng.choice(others))
    if earlier and rng.random() < 0.3:
        # shadowing: the host module defines a name that one of its procedures also imports, with a
        # different meaning, through a local USE ... ONLY (legal: the local import hides the host's)
        m = rng.choice(earlier)
        src = ws["files"][f"{m}.f90"]
        imported = set()
        for use in u["uses"]:
            if use["mod"] == m:
                imported |= {"*"} if use["only"] is None else {loc for loc, _ in use["only"]}
        pub = lambda n: ((not src["private_default"]) or n in src["public"]) and \
            n not in src.get("private_names", [])  # noqa: E731
        cands = [("var", v) for v in src["vars"] if pub(v["name"]) and not v["type"].startswith("type(")] + \
                [("proc", q) for q in src["procs"] if pub(q["name"]) and q["kind"] == "subroutine"]
        cands = [c for c in cands if "*" not in imported and c[1]["name"] not in imported]
        if cands:
            kind, e = rng.choice(cands)
            # the host's twin stays private, so that no third unit sees the name twice
            u.setdefault("private_names", []).append(e["name"])
            q = new_proc(rng, ws, "subroutine")
            q["local_use"] = {"mod": m, "only": [[e["name"], e["name"]]]}
            if kind == "var":
                other = "logical" if e["type"] != "logical" else "integer"
                u["vars"].append({"name": e["name"], "type": other, "attrs": [], "doc": False})
                q["extra"] = [f"print *, {e['name']}"]
            else:
                twin = new_proc(rng, ws, "subroutine")
                twin["name"] = e["name"]
                twin["args"] = [new_var(rng, ws, "logical", ["intent(in)"]) for _ in range(len(e["args"]) + 1)]
                u["procs"].append(twin)
                q["extra_decl"] = [f"procedure({e['name']}), pointer :: pp{uid(ws)}"]
                q["extra"] = [f"call {e['name']}({', '.join('1' for _ in e['args'])})"]
            u["procs"].append(q)
    if u["private_default"]:
        names = [t["name"] for t in u["types"]] + [p["name"] for p in u["procs"]] + [v["name"] for v in u["vars"]]
        names = [n for n in names if n not in u.get("private_names", [])]
        u["public"] = rng.sample(names, max(1, len(names) // 2))
    return u


def accessible_types(use, src, ws=None, depth=0):
    names = [t["name"] for t in src["types"]]
    if ws is not None and depth < 3 and use["only"] is None and not src.get("private_default"):
        # types re-exported by the used module from the modules it uses itself
        for u2 in src.get("uses", []):
            src2 = None
            for unit in ws["files"].values():
                if unit.get("kind") == "module" and unit.get("name") == u2["mod"]:
                    src2 = unit
            if src2 is not None:
                names += [n for n in accessible_types(u2, src2, ws, depth + 1) if n not in names]
    if src.get("private_default"):
        names = [n for n in names if n in src.get("public", [])]
    if use["only"] is None:
        return names
    out = []
    for local, remote in use["only"]:
        if remote in names:
            out.append(local)
    return out


def new_program(rng, ws, name, mods):
    u = {"kind": "program", "name": name, "uses": [], "vars": [new_var(rng, ws, "integer")], "stmts": [],
         "includes": []}
    if rng.random() < 0.25:
        u["headless"] = True
    for m in rng.sample(mods, min(len(mods), rng.randint(1, 2))):
        src = ws["files"][f"{m}.f90"]
        u["uses"].append({"mod": m, "only": None})
        pub = lambda n: ((not src["private_default"]) or n in src["public"]) and \
            n not in src.get("private_names", [])  # noqa: E731
        for t in src["types"]:
            if pub(t["name"]) and rng.random() < 0.8:
                ov = f"x{uid(ws)}{ident(rng, 1)}"
                u["vars"].append({"name": ov, "type": f"type({t['name']})", "attrs": [], "doc": False})
                for c in t["comps"][:2]:
                    u["stmts"].append(f"{ov}%{c['name']} = 1")
                for b in t["binds"][:1]:
                    u["stmts"].append(f"call {ov}%{b[0]}()")
                if t["parent"]:
                    u["stmts"].append(f"print *, {ov}%{t['parent']}")
                    # ASSOCIATE names bound to inherited components / the parent part
                    pt = find_type(ws, t["parent"])
                    if pt is not None and pt["comps"]:
                        an = f"as{uid(ws)}"
                        u["stmts"] += [f"associate ({an} => {ov}%{pt['comps'][0]['name']}, {an}p => {ov}%{t['parent']})",
                                       f"  print *, {an}, {an}p%{pt['comps'][0]['name']}", "end associate"]
        for p in src["procs"]:
            if pub(p["name"]) and rng.random() < 0.6:
                args = ", ".join("1" for _ in p["args"])
                if p["kind"] == "subroutine":
                    u["stmts"].append(f"call {p['name']}({args})")
                else:
                    u["stmts"].append(f"{u['vars'][0]['name']} = {p['name']}({args})")
        for v in src["vars"][:2]:
            if pub(v["name"]) and not v["type"].startswith("type("):
                u["stmts"].append(f"print *, {v['name']}")
        # names that reach the program only *through* the used module (it uses another module and
        # does not hide what it imports)
        if not src["private_default"]:
            for u2 in src["uses"]:
                src2 = ws["files"].get(f"{u2['mod']}.f90")
                if src2 is None or src2["kind"] != "module" or u2["only"] is not None:
                    continue
                pub2 = lambda n: ((not src2["private_default"]) or n in src2["public"]) and \
                    n not in src2.get("private_names", [])  # noqa: E731
                for v in src2["vars"][:2]:
                    if pub2(v["name"]) and not v["type"].startswith("type("):
                        u["stmts"].append(f"print *, {v['name']}  ! through {src['name']}")
    return u


def find_type(ws, name):
    for u in ws["files"].values():
        for t in u.get("types", []) if isinstance(u, dict) else []:
            if t["name"] == name:
                return t
    return None


def new_ppfile(rng, ws, name):
    T = name.upper()
    return {"kind": "ppmodule", "name": f"{name}_mod", "macros": [[f"{T}_A", "1"], [f"{T}_B", "2"]],
            "flag": rng.random() < 0.5, "vars": [new_var(rng, ws, "integer"), new_var(rng, ws, "real")]}


# ------------------------------------------------------------------ rendering


def decl(v, ind="  "):
    attrs = "".join(", " + a for a in v["attrs"])
    out = []
    if v.get("doc"):
        out.append(f"{ind}!> about {v['name']}")
    out.append(f"{ind}{v['type']}{attrs} :: {v['name']}")
    return out


def render_use(u):
    if u["only"] is None:
        return f"  use {u['mod']}"
    items = ", ".join((f"{loc} => {rem}" if loc != rem else rem) for loc, rem in u["only"])
    return f"  use {u['mod']}, only: {items}"


def render_proc(p, ind="  "):
    args = ", ".join(a["name"] for a in p["args"])
    ls = []
    if p.get("doc"):
        ls.append(f"{ind}!> does {p['name']}")
    if p["kind"] == "subroutine":
        ls.append(f"{ind}subroutine {p['name']}({args})")
    else:
        ls.append(f"{ind}function {p['name']}({args}) result(res)")
    if p.get("local_use"):
        ls.append(ind + render_use(p["local_use"]))
    for a in p["args"]:
        ls += decl(a, ind + "  ")
    for d in p.get("extra_decl", []):
        ls.append(f"{ind}  {d}")
    if p.get("self_type"):
        ls.append(f"{ind}  class({p['self_type']}) :: self")
    for v in p["locals"]:
        ls += decl(v, ind + "  ")
    if p["kind"] == "function":
        ls.append(f"{ind}  integer :: res")
        ls.append(f"{ind}  res = 0")
    for v in p.get("uses_vars", []):
        ls.append(f"{ind}  print *, {v}")
    for c in p.get("calls", []):
        ls.append(f"{ind}  call {c}()")
    for st in p.get("extra", []):
        ls.append(f"{ind}  {st}")
    ls.append(f"{ind}end {p['kind']} {p['name']}")
    return ls


def render(unit):
    k = unit["kind"]
    ls = []
    if k == "module":
        ls.append(f"module {unit['name']}")
        for u in unit["uses"]:
            ls.append(render_use(u))
        ls.append("  implicit none")
        if unit["private_default"]:
            ls.append("  private")
            if unit["public"]:
                ls.append("  public :: " + ", ".join(unit["public"]))
        elif unit.get("private_names"):
            ls.append("  private :: " + ", ".join(unit["private_names"]))
        for t in unit["types"]:
            head = "  type"
            if t["parent"]:
                head += f", extends({t['parent']})"
            if t["private"]:
                head += ", private"
            ls.append(f"{head} :: {t['name']}")
            for c in t["comps"]:
                ls += decl(c, "    ")
            if t["binds"]:
                ls.append("  contains")
                for b, target in t["binds"]:
                    ls.append(f"    procedure, nopass :: {b} => {target}")
            ls.append(f"  end type {t['name']}")
        for v in unit["vars"]:
            ls += decl(v)
        for e in unit.get("externals", []):
            # FORTRAN 77 style: type and EXTERNAL attribute in separate statements
            ls.append(f"  real {e}")
            ls.append(f"  external {e}")
        if unit.get("long_line"):
            ls.append("  integer, parameter :: long_one = " + " + ".join(["1"] * 60))
        if unit["mod_procs"]:
            ls.append("  interface")
            for mp in unit["mod_procs"]:
                ls += [f"    module subroutine {mp}(a)", "      integer, intent(in) :: a",
                       f"    end subroutine {mp}"]
            ls.append("  end interface")
        if unit["procs"]:
            ls.append("contains")
            for p in unit["procs"]:
                ls += render_proc(p)
        ls.append(f"end module {unit['name']}")
    elif k == "program":
        if not unit.get("headless"):
            ls.append(f"program {unit['name']}")
        for u in unit["uses"]:
            ls.append(render_use(u))
        ls.append("  implicit none")
        for inc in unit["includes"]:
            ls.append(f"  include '{inc}'")
        for t in unit.get("local_types", []):
            ls.append(f"  type, extends({t['parent']}) :: {t['name']}" if t["parent"] else f"  type :: {t['name']}")
            for c in t["comps"]:
                ls += decl(c, "    ")
            ls.append(f"  end type {t['name']}")
        for v in unit["vars"]:
            ls += decl(v)
        for s in unit["stmts"]:
            ls.append("  " + s)
        # a main program needs no PROGRAM statement: its statements then sit outside any named unit
        ls.append("end" if unit.get("headless") else f"end program {unit['name']}")
    elif k == "include":
        for t in unit.get("types", []):
            ls.append(f"type :: {t['name']}")
            for c in t["comps"]:
                ls += decl(c, "  ")
            ls.append(f"end type {t['name']}")
        for v in unit["vars"]:
            ls += decl(v, "")
    elif k == "submodule":
        ls.append(f"submodule ({unit['parent']}) {unit['name']}")
        ls.append("  implicit none")
        for t in unit.get("types", []):
            ls.append(f"  type, extends({t['parent']}) :: {t['name']}" if t["parent"] else f"  type :: {t['name']}")
            for c in t["comps"]:
                ls += decl(c, "    ")
            ls.append(f"  end type {t['name']}")
        for v in unit["vars"]:
            ls += decl(v)
        ls.append("contains")
        for p in unit["procs"]:
            ls += [f"  module subroutine {p}(a)", "    integer, intent(in) :: a",
                   f"    print *, a, {unit['vars'][0]['name'] if unit['vars'] else 'a'}"]
            ls += ["    " + st for st in unit.get("stmts", [])]
            ls.append(f"  end subroutine {p}")
        ls.append(f"end submodule {unit['name']}")
    elif k == "header":
        for mname, val in unit["macros"]:
            ls.append(f"#define {mname} {val}")
    elif k == "ppmodule":
        for mname, val in unit["macros"]:
            ls.append(f"#define {mname} {val}")
        if unit.get("header"):
            ls.append(f"#include \"{unit['header']}\"")
        ls.append(f"module {unit['name']}")
        ls.append("  implicit none")
        if unit.get("header"):
            hm = "FROM_HDR_" + unit["header"][3:-2].upper()
            ls += [f"#ifdef {hm}", f"  integer :: from_hdr_{unit['name']} = {hm}", "#else",
                   f"  real :: no_hdr_{unit['name']}", "#endif"]
        m0 = unit["macros"][0][0] if unit["macros"] else "NOPE"
        ls.append(f"#ifdef {m0}")
        ls += decl(unit["vars"][0])
        ls.append("#else")
        ls += decl(unit["vars"][1])
        ls.append("#endif")
        if len(unit["macros"]) > 1:
            ls.append(f"#if {unit['macros'][1][0]} == 2")
            ls.append(f"  integer :: two_{unit['name']}")
            ls.append("#endif")
        ls.append(f"  integer :: val_{unit['name']} = {m0}")
        ls.append(f"end module {unit['name']}")
    else:
        raise ValueError(k)
    return "\n".join(ls) + "\n"


def render_all(ws):
    out = {name: render(u) for name, u in sorted(ws["files"].items())}
    if ws.get("tabs"):
        # the same sources as a TAB-indenting editor writes them
        import re as _re

        for name in out:
            if not name.endswith("_inc.f90"):
                out[name] = _re.sub(r"(?m)^(?:  )+", lambda m: "\t" * (len(m.group(0)) // 2), out[name])
    return out


# ------------------------------------------------------------------ edit operators


def modules(ws):
    return sorted(n for n, u in ws["files"].items() if u["kind"] == "module")


def replace_everywhere(ws, old, new, skip_file=None):
    """consistent rename in all *users* (textual in stmts, structural elsewhere)"""
    for fname, u in ws["files"].items():
        if fname == skip_file:
            continue
        for use in u.get("uses", []):
            if use["mod"] == old:
                use["mod"] = new
            if use["only"]:
                for pair in use["only"]:
                    if pair[1] == old:
                        if pair[0] == old:
                            pair[0] = new
                        pair[1] = new
        for t in u.get("types", []):
            if t["parent"] == old:
                t["parent"] = new
            for b in t["binds"]:
                if b[1] == old:
                    b[1] = new
        for v in u.get("vars", []):
            if v["type"] == f"type({old})":
                v["type"] = f"type({new})"
        if "stmts" in u:
            u["stmts"] = [s.replace(old, new) for s in u["stmts"]]
        for p in u.get("procs", []):
            if isinstance(p, dict):
                p["calls"] = [new if c == old else c for c in p["calls"]]
                p["uses_vars"] = [new if c == old else c for c in p["uses_vars"]]
        if u.get("parent") == old:
            u["parent"] = new
        if "public" in u:
            u["public"] = [new if c == old else c for c in u["public"]]


OPERATORS = ["rename_module", "rename_type", "add_component", "remove_component", "add_proc",
             "remove_proc", "toggle_private", "retarget_extends", "change_use", "move_type",
             "create_file", "delete_file", "rename_var", "toggle_long_line", "edit_macro",
             "rename_file", "change_include", "reorder", "edit_fragment"]


def apply_operator(rng, ws, op=None):
    """mutates ws; returns a description dict (op name + what) or None if not applicable"""
    op = op or rng.choice(OPERATORS)
    mods = modules(ws)
    if not mods and op not in ("create_file",):
        return None
    consistent = rng.random() < 0.6
    if op == "rename_module":
        f = rng.choice(mods)
        u = ws["files"][f]
        old, new = u["name"], f"mr{uid(ws)}{ws['tag']}"
        u["name"] = new
        if consistent:
            replace_everywhere(ws, old, new)
        return {"op": op, "old": old, "new": new, "consistent": consistent}
    if op == "rename_type":
        cands = [(f, t) for f in mods for t in ws["files"][f]["types"]]
        if not cands:
            return None
        f, t = rng.choice(cands)
        old, new = t["name"], f"tr{uid(ws)}{ident(rng, 2)}"
        t["name"] = new
        u = ws["files"][f]
        u["public"] = [new if c == old else c for c in u["public"]]
        for v in u["vars"]:
            if v["type"] == f"type({old})":
                v["type"] = f"type({new})"
        for t2 in u["types"]:
            if t2["parent"] == old:
                t2["parent"] = new
        if consistent:
            replace_everywhere(ws, old, new, skip_file=None)
        return {"op": op, "old": old, "new": new, "consistent": consistent}
    if op == "add_component":
        cands = [(f, t) for f in mods for t in ws["files"][f]["types"]]
        if not cands:
            return None
        f, t = rng.choice(cands)
        c = new_var(rng, ws, rng.choice(["integer", "real", "logical"]))
        t["comps"].append(c)
        for pf, pu in ws["files"].items():
            if pu["kind"] == "program" and rng.random() < 0.5:
                for v in pu["vars"]:
                    if v["type"] == f"type({t['name']})":
                        pu["stmts"].append(f"{v['name']}%{c['name']} = 2")
        return {"op": op, "type": t["name"], "comp": c["name"]}
    if op == "remove_component":
        cands = [(f, t) for f in mods for t in ws["files"][f]["types"] if len(t["comps"]) > 0]
        if not cands:
            return None
        f, t = rng.choice(cands)
        c = t["comps"].pop(rng.randrange(len(t["comps"])))
        return {"op": op, "type": t["name"], "comp": c["name"]}
    if op == "add_proc":
        f = rng.choice(mods)
        u = ws["files"][f]
        p = new_proc(rng, ws)
        p["uses_vars"] = [v["name"] for v in u["vars"][:1]]
        u["procs"].append(p)
        if u["private_default"] and rng.random() < 0.5:
            u["public"].append(p["name"])
        return {"op": op, "mod": u["name"], "proc": p["name"]}
    if op == "remove_proc":
        cands = [(f, p) for f in mods for p in ws["files"][f]["procs"]]
        if not cands:
            return None
        f, p = rng.choice(cands)
        ws["files"][f]["procs"].remove(p)
        return {"op": op, "proc": p["name"]}
    if op == "toggle_private":
        f = rng.choice(mods)
        u = ws["files"][f]
        if rng.random() < 0.5 and u["types"]:
            t = rng.choice(u["types"])
            t["private"] = not t["private"]
            return {"op": op, "type": t["name"], "private": t["private"]}
        u["private_default"] = not u["private_default"]
        if u["private_default"] and not u["public"]:
            names = [t["name"] for t in u["types"]] + [p["name"] for p in u["procs"]]
            names = [n for n in names if n not in u.get("private_names", [])]
            u["public"] = rng.sample(names, max(0, len(names) // 2))
        return {"op": op, "mod": u["name"], "private_default": u["private_default"]}
    if op == "retarget_extends":
        cands = [(f, t) for f in mods for t in ws["files"][f]["types"]]
        if not cands:
            return None
        f, t = rng.choice(cands)
        u = ws["files"][f]
        choices = [None] + [t2["name"] for t2 in u["types"] if t2 is not t]
        for use in u["uses"]:
            src = ws["files"].get(f"{use['mod']}.f90")
            if src and src["kind"] == "module":
                choices += accessible_types(use, src)
        old = t["parent"]
        t["parent"] = rng.choice(choices)
        return {"op": op, "type": t["name"], "old": old, "new": t["parent"]}
    if op == "change_use":
        users = sorted(n for n, u in ws["files"].items() if u.get("uses") is not None and u["kind"] in ("module", "program"))
        f = rng.choice(users)
        u = ws["files"][f]
        r = rng.random()
        if u["uses"] and r < 0.3:
            rm = u["uses"].pop(rng.randrange(len(u["uses"])))
            return {"op": op, "file": f, "removed": rm["mod"]}
        others = [ws["files"][m]["name"] for m in mods if ws["files"][m]["name"] != u.get("name")]
        if not others:
            return None
        if u["uses"] and r < 0.65:
            use = rng.choice(u["uses"])
            srcs = [ws["files"][m] for m in mods if ws["files"][m]["name"] == use["mod"]]
            if srcs:
                src = srcs[0]
                cands = [t["name"] for t in src["types"]] + [v["name"] for v in src["vars"]] + \
                        [p["name"] for p in src["procs"]]
                if use["only"] is None and cands:
                    use["only"] = [[c, c] for c in rng.sample(cands, min(len(cands), 2))]
                else:
                    use["only"] = None
                return {"op": op, "file": f, "only": use["only"]}
        m = rng.choice(others)
        if all(x["mod"] != m for x in u["uses"]):
            u["uses"].append({"mod": m, "only": None})
        return {"op": op, "file": f, "added": m}
    if op == "move_type":
        if len(mods) < 2:
            return None
        f1, f2 = rng.sample(mods, 2)
        u1, u2 = ws["files"][f1], ws["files"][f2]
        if not u1["types"]:
            return None
        t = u1["types"].pop(rng.randrange(len(u1["types"])))
        u2["types"].append(t)
        return {"op": op, "type": t["name"], "from": u1["name"], "to": u2["name"]}
    if op == "create_file":
        name = f"n{uid(ws)}{ws['tag']}"
        earlier = [ws["files"][m]["name"] for m in mods]
        # new_module looks modules up by '<name>.f90': provide a view keyed that way
        view = {"tag": ws["tag"], "counter": ws["counter"],
                "files": {f"{ws['files'][m]['name']}.f90": ws["files"][m] for m in mods}}
        unit = new_module(rng, view, name, earlier)
        ws["counter"] = view["counter"]
        ws["files"][f"{name}.f90"] = unit
        return {"op": op, "file": f"{name}.f90"}
    if op == "delete_file":
        cands = sorted(ws["files"])
        if len(cands) <= 1:
            return None
        f = rng.choice(cands)
        del ws["files"][f]
        return {"op": op, "file": f}
    if op == "rename_file":
        f = rng.choice(sorted(ws["files"]))
        stem, ext = f.rsplit(".", 1)
        new = f"{stem}r{uid(ws)}.{ext}"
        ws["files"][new] = ws["files"].pop(f)
        if ws["files"][new]["kind"] == "include":
            if consistent:
                for u in ws["files"].values():
                    if "includes" in u:
                        u["includes"] = [new if x == f else x for x in u["includes"]]
        return {"op": op, "old": f, "new": new, "consistent": consistent}
    if op == "rename_var":
        cands = [(f, v) for f in mods for v in ws["files"][f]["vars"]]
        if not cands:
            return None
        f, v = rng.choice(cands)
        old, new = v["name"], f"w{uid(ws)}{ident(rng, 2)}"
        v["name"] = new
        u = ws["files"][f]
        for p in u["procs"]:
            p["uses_vars"] = [new if c == old else c for c in p["uses_vars"]]
        u["public"] = [new if c == old else c for c in u["public"]]
        if consistent:
            replace_everywhere(ws, old, new)
        return {"op": op, "old": old, "new": new, "consistent": consistent}
    if op == "toggle_long_line":
        f = rng.choice(mods)
        ws["files"][f]["long_line"] = not ws["files"][f].get("long_line")
        return {"op": op, "file": f}
    if op == "edit_macro":
        pps = sorted(n for n, u in ws["files"].items() if u["kind"] == "ppmodule")
        if not pps:
            return None
        u = ws["files"][rng.choice(pps)]
        r = rng.random()
        if r < 0.4 and u["macros"]:
            u["macros"].pop(0)
        elif r < 0.7 and u["macros"]:
            u["macros"][-1][1] = str(rng.randint(1, 3))
        else:
            u["macros"].insert(0, [f"{u['name'].upper()}_N{uid(ws)}", "1"])
        return {"op": op, "macros": copy.deepcopy(u["macros"])}
    if op == "reorder":
        # same bytes in another order: the file keeps its size while every line number moves
        cands = []
        for f in mods:
            u = ws["files"][f]
            for key in ("procs", "vars", "types"):
                if len(u[key]) >= 2:
                    cands.append((f, u[key], key))
            for t in u["types"]:
                if len(t["comps"]) >= 2:
                    cands.append((f, t["comps"], "comps"))
        if not cands:
            return None
        f, seq, key = rng.choice(cands)
        i, j = rng.sample(range(len(seq)), 2)
        seq[i], seq[j] = seq[j], seq[i]
        return {"op": op, "file": f, "what": key}
    if op == "edit_fragment":
        # only a declarations-only INCLUDE fragment changes: a component or variable of it is renamed,
        # added or removed (consistently used by the includer or not)
        incs = sorted(n for n, u in ws["files"].items() if u["kind"] == "include")
        if not incs:
            return None
        f = rng.choice(incs)
        u = ws["files"][f]
        pool = [c for t in u.get("types", []) for c in t["comps"]] + u["vars"]
        r = rng.random()
        if r < 0.5 and pool:
            v = rng.choice(pool)
            old, new = v["name"], f"fr{uid(ws)}{ident(rng, 2)}"
            v["name"] = new
            v["type"] = rng.choice(["integer", "real", "logical"])
            if consistent:
                for pu in ws["files"].values():
                    if pu["kind"] == "program":
                        pu["stmts"] = [st.replace("%" + old + " ", "%" + new + " ") for st in pu["stmts"]]
            return {"op": op, "old": old, "new": new, "consistent": consistent}
        if r < 0.75 and u.get("types"):
            rng.choice(u["types"])["comps"].append(new_var(rng, ws, "integer"))
            return {"op": op, "added": "component"}
        u["vars"].append(new_var(rng, ws, "integer"))
        return {"op": op, "added": "var"}
    if op == "change_include":
        progs = sorted(n for n, u in ws["files"].items() if u["kind"] == "program")
        incs = sorted(n for n, u in ws["files"].items() if u["kind"] == "include")
        if not progs:
            return None
        u = ws["files"][rng.choice(progs)]
        if u["includes"] and rng.random() < 0.5:
            u["includes"].pop()
        elif incs:
            inc = rng.choice(incs)
            if inc not in u["includes"]:
                u["includes"].append(inc)
        else:
            name = f"fr{uid(ws)}{ws['tag']}_inc.f90"
            ws["files"][name] = {"kind": "include", "vars": [new_var(rng, ws, "integer")]}
            u["includes"].append(name)
        return {"op": op, "includes": list(u["includes"])}
    return None


# ------------------------------------------------------------------ text diff -> LSP change


def diff_change(old_lines, new_lines):
    """one ranged change turning old_lines into new_lines (whole differing middle)"""
    a, b = old_lines, new_lines
    i = 0
    while i < len(a) and i < len(b) and a[i] == b[i]:
        i += 1
    j = 0
    while j < len(a) - i and j < len(b) - i and a[len(a) - 1 - j] == b[len(b) - 1 - j]:
        j += 1
    if i == len(a) and i == len(b):
        return None
    # replace a[i : len(a)-j] by b[i : len(b)-j]
    if j == 0:
        # differs up to the end: replace to end of last line
        start = {"line": i, "character": 0} if i < len(a) else \
            {"line": len(a) - 1, "character": len(a[-1])}
        end = {"line": len(a) - 1, "character": len(a[-1])}
        mid = b[i:]
        text = "\n".join(mid)
        if i >= len(a):
            text = "\n" + text
        return {"range": {"start": start, "end": end}, "text": text}
    start = {"line": i, "character": 0}
    end = {"line": len(a) - j, "character": 0}
    mid = b[i: len(b) - j]
    text = "".join(ln + "\n" for ln in mid)
    return {"range": {"start": start, "end": end}, "text": text}
