"""Worker farm: worker interpreters grouped by PYTHONHASHSEED; blocking `run`
calls from launcher threads are routed to an idle worker of the right group."""
from __future__ import annotations

import json
import os
import queue
import subprocess
import sys
import threading

HERE = os.path.dirname(os.path.abspath(__file__))
PY = sys.executable


OPTIMIZED_SEEDS = (3,)


class Worker:
    def __init__(self, hashseed: int, repo: str):
        self.hashseed = hashseed
        self.repo = repo
        self.proc = None
        self.start()

    def start(self):
        env = dict(os.environ)
        env["PYTHONHASHSEED"] = str(self.hashseed)
        env["PYTHONDONTWRITEBYTECODE"] = "1"
        # the interpreter's optimisation level is part of the deployment, like the hash seed: the
        # group with hash seed 3 runs as `python -O` (assert statements and __debug__ blocks are
        # compiled away), the others at the default level
        env.pop("PYTHONOPTIMIZE", None)
        if self.hashseed in OPTIMIZED_SEEDS:
            env["PYTHONOPTIMIZE"] = "1"
        env.pop("PYTHONPATH", None)
        self.proc = subprocess.Popen(
            [PY, "-B", os.path.join(HERE, "worker.py"), "--repo", self.repo],
            stdin=subprocess.PIPE, stdout=subprocess.PIPE, env=env, text=True, bufsize=1,
        )

    def call(self, task: dict) -> dict:
        try:
            self.proc.stdin.write(json.dumps(task) + "\n")
            self.proc.stdin.flush()
            line = self.proc.stdout.readline()
        except (BrokenPipeError, OSError):
            line = ""
        if not line:
            try:
                self.proc.kill()
            except Exception:
                pass
            self.start()
            return {"status": "HARNESS", "error": "worker interpreter died", "violations": [],
                    "fired": [], "digest": ""}
        return json.loads(line)

    def stop(self):
        try:
            self.proc.stdin.write('{"t":"quit"}\n')
            self.proc.stdin.flush()
            self.proc.stdin.close()
            self.proc.wait(timeout=5)
        except Exception:
            try:
                self.proc.kill()
            except Exception:
                pass


class Farm:
    def __init__(self, repo: str, hashseeds=(0, 1, 2, 3), nworkers: int = 16):
        self.repo = os.path.realpath(repo)
        self.hashseeds = list(hashseeds)
        self.idle = {h: queue.Queue() for h in self.hashseeds}
        self.workers = []
        per = max(1, nworkers // len(self.hashseeds))
        for h in self.hashseeds:
            for _ in range(per):
                w = Worker(h, self.repo)
                self.workers.append(w)
                self.idle[h].put(w)
        self.nworkers = len(self.workers)
        # verify every worker imported fortls from the requested tree
        for w in self.workers:
            r = w.call({"t": "ping"})
            if not r.get("ok") or os.path.realpath(r["fortls"]) != os.path.join(self.repo, "fortls"):
                self.stop()
                raise RuntimeError(f"worker did not import fortls from {self.repo}: {r}")

    def run(self, task: dict, hashseed: int) -> dict:
        q = self.idle[hashseed]
        w = q.get()
        try:
            return w.call(task)
        finally:
            q.put(w)

    def stop(self):
        for w in self.workers:
            w.stop()


def pmap(fn, items, nthreads: int):
    """ordered parallel map with threads (the work is in worker processes)"""
    items = list(items)
    out = [None] * len(items)
    it = iter(range(len(items)))
    lock = threading.Lock()
    errs = []

    def loop():
        while True:
            with lock:
                i = next(it, None)
            if i is None:
                return
            try:
                out[i] = fn(items[i])
            except BaseException as e:  # noqa: BLE001
                import traceback

                errs.append(traceback.format_exc())
                out[i] = e

    ts = [threading.Thread(target=loop, daemon=True) for _ in range(nthreads)]
    for t in ts:
        t.start()
    for t in ts:
        t.join()
    if errs:
        raise RuntimeError("launcher thread failed:\n" + errs[0])
    return out
