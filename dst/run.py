"""Execute one schedule against the real LangServer (inside a forked child)."""
from __future__ import annotations

import hashlib
import io
import json
import logging
import os
import sys
import traceback
from collections import deque

from . import frames, model, sim
from .sim import CANON, ROOT, S, ev, violation


def jdump(x) -> str:
    return json.dumps(x, sort_keys=True, ensure_ascii=True, separators=(",", ":"))


class Invalid(Exception):
    pass


class Driver:
    def __init__(self, sched: dict, world: sim.World, writer: sim.SimWriter):
        self.sched = sched
        self.ops = [dict(o) for o in sched["ops"]]
        self.world = world
        self.writer = writer
        self.pos = 0
        self.pending = bytearray()
        self.marks = deque()  # (absolute end offset, op index)
        self.built = 0
        self.delivered = 0
        self.sent = []  # op indices of fully delivered messages, in order
        self.sent_objs = []  # the objects the writer serialised (canonical), same order
        self.handled = []  # jdump of each dict given to LangServer.handle (canonical)
        self.versions = {}  # uri -> last document version sent
        self.waiting_after_burst = False
        self.server_requests = []  # requests the server sent to the client: {"id", "method", "due"}
        self.replies_sent = 0
        self.msgs_built = 0
        self.reply_delay = sched.get("reply_delay", 0)  # client messages sent before a request is answered
        self.handled_ops = []
        self.op_steps = {}
        self.chunks = sched.get("chunks")
        self.ci = 0
        self.pipeline = bool(sched.get("pipeline"))
        self.reader = frames.FrameReader()
        self.out = []  # {"op": k, "f": frame}  (frames canonicalised)
        self.nwrites = 0
        self.docs = {}  # canonical path -> {"lines": [...]} for open documents
        self.told = {}  # path -> lines the server was last told about (open or disk at last sync)
        self.requests = []  # (op index, id, method)
        self.exit_sent = False
        self.exit_op = None
        self.eof = False
        self.cut_used = False
        self.server = None
        self.obs = []
        self.battery_from = None
        self.battery_labels = {}
        self.expanded = []
        self.split_inside_frame = 0
        self.eof_reads = 0
        self.announced_sync = None
        self.plan = None
        self.last_boundary = 0
        self.chunk_inside_utf8 = 0
        self.pipelined_pairs = 0
        self.nreads = 0
        self.idle_hooks = []

    def client_would_write(self) -> bool:
        """would the client's end of the pipe become readable without the server doing anything?
        Bytes already written and not yet read: yes. End of the schedule (the client closes the
        pipe): yes. Otherwise a streaming client goes on writing; a client in lock-step waits
        while a request that it has fully delivered is still unanswered."""
        self.on_idle()
        if self.pending or self.eof or self.pos >= len(self.ops):
            return True
        if self.pipeline and not self.waiting_after_burst:
            return True
        answered = {jdump(o["f"].get("id")) for o in self.out if "method" not in o["f"] and "id" in o["f"]}
        for obj in self.sent_objs:
            if isinstance(obj, dict) and "id" in obj and "method" in obj and jdump(obj["id"]) not in answered:
                return False
        return True

    # ---- inbound side -------------------------------------------------
    def next_bytes(self, maxn: int) -> bytes:
        self.on_idle()
        sim.VCLOCK["idle"] = 0.0
        if not self.pending and self.plan is not None and self.handled_ops:
            sim.late_races(self.plan, self.world, self.handled_ops[-1])
        while not self.pending:
            due = [q for q in self.server_requests if q["due"] <= self.msgs_built or self.pos >= len(self.ops)
                   or self.ops[self.pos]["k"] != "msg"]
            if due and not self.eof:
                q = due[0]
                self.server_requests.remove(q)
                reply = {"jsonrpc": "2.0", "id": q["id"], "result": None}
                data = frames.encode_frame(reply)
                self.pending += data
                self.built += len(data)
                self.marks.append((self.built, -3, reply))
                self.replies_sent += 1
                ev("reply", q["id"], q["method"])
                break
            if self.eof or self.pos >= len(self.ops):
                self.eof_reads += 1
                if self.eof_reads > 2000:
                    import traceback as _tb

                    site = sim._site_from_stack(_tb.extract_stack())
                    violation("LIVENESS", "reads-after-eof", site,
                              "the server asked for input more than 2000 times after end of stream")
                    ev("liveness", "eof")
                    S.abort_cb("LIVENESS")
                return b""
            op = self.ops[self.pos]
            k = op["k"]
            if k == "msg":
                self._build_segment()
            elif k == "env":
                self.world.apply(op)
                ev("env", op["do"], op["path"])
                self.pos += 1
            elif k == "obs":
                self._observe(op)
                self.pos += 1
            elif k == "battery":
                from . import battery

                msgs = battery.expand(op.get("spec", {}), self)
                self.battery_from = self.pos
                self.ops[self.pos : self.pos + 1] = msgs
                self.expanded.append([self.pos, len(msgs)])
                ev("battery", len(msgs))
                if not msgs:
                    continue
            elif k == "eof":
                self.eof = True
            else:
                raise ValueError(f"unknown op kind {k}")
        n = maxn
        if self.chunks:
            n = min(n, max(1, self.chunks[self.ci % len(self.chunks)]))
            self.ci += 1
        data = bytes(self.pending[:n])
        del self.pending[:n]
        self.delivered += len(data)
        self.nreads += 1
        newly = 0
        while self.marks and self.marks[0][0] <= self.delivered:
            self.last_boundary, k, obj = self.marks.popleft()
            if k == -3:
                continue  # the client's answer to a server request
            self.sent.append(k)
            self.sent_objs.append(obj)
            newly += 1
        if newly > 1:
            self.pipelined_pairs += newly - 1
        if self.pending and self.delivered != self.last_boundary:
            self.split_inside_frame += 1
        if self.pending:
            b0 = self.pending[0]
            if 0x80 <= b0 < 0xC0:
                self.chunk_inside_utf8 += 1
        return data

    def _versioned(self, m):
        """document versions as a conforming client numbers them: whatever didOpen says, then
        strictly increasing with every didChange until the document is opened again (computed at
        send time, so that schedules stay conforming when the shrinker drops operations)"""
        meth = m.get("method")
        if meth not in ("textDocument/didOpen", "textDocument/didChange"):
            return m
        try:
            td = m["params"]["textDocument"]
            u, v = td["uri"], td.get("version")
        except (KeyError, TypeError):
            return m
        if not isinstance(u, str) or not isinstance(v, int) or isinstance(v, bool):
            return m
        if meth == "textDocument/didOpen":
            self.versions[u] = v
            return m
        if u not in self.versions:
            return m
        self.versions[u] += 1
        m = dict(m, params=dict(m["params"], textDocument=dict(td, version=self.versions[u])))
        return m

    def _build_segment(self):
        self.waiting_after_burst = False
        while True:
            op = self.ops[self.pos]
            m = self._versioned(op["m"])
            data = frames.encode_frame(sim.realise(m), op.get("hdr", "cl-first"), op.get("esc", False))
            if "raw" in op:  # deliberately non-conforming bytes are never generated; reserved
                raise ValueError("raw ops unsupported")
            cut = op.get("cut")
            if cut is not None:
                data = data[: max(0, min(len(data) - 1, cut))]
                self.eof = True
                self.cut_used = True
                self.pending += data
                self.built += len(data)
                self.pos += 1
                ev("msg-cut", self.pos - 1, len(data))
                return
            self.pending += data
            self.built += len(data)
            self.marks.append((self.built, self.pos, m))
            self.msgs_built += 1
            self._client_effects(self.pos, m)
            ev("msg", self.pos, m.get("method"), m.get("id"))
            self.pos += 1
            if not self.pipeline or self.pos >= len(self.ops) or self.ops[self.pos]["k"] != "msg":
                return
            if op.get("sync"):
                # end of a burst: the client now waits for the answers before it writes again
                self.waiting_after_burst = True
                return

    def _client_effects(self, k: int, m: dict):
        method = m.get("method")
        if "id" in m and method is not None:
            self.requests.append((k, m["id"], method))
        if method == "exit" and "id" not in m:
            self.exit_sent = True
            self.exit_op = k
        if method == "initialize":
            # the server reads the disk now: this is what it has been told about closed files
            self.told = dict(self.world.files)
        p = m.get("params")
        if not isinstance(p, dict):
            return
        td = p.get("textDocument")
        if not isinstance(td, dict) or not isinstance(td.get("uri"), str):
            return
        try:
            path = frames.uri_decode(td["uri"])
        except Exception:
            return
        path = os.path.normpath(path)
        if method in ("textDocument/didOpen", "textDocument/didSave", "textDocument/didClose"):
            # the server re-reads the file on these notifications
            if path in self.world.files:
                self.told[path] = self.world.files[path]
            elif method == "textDocument/didClose":
                self.told.pop(path, None)
        if method == "textDocument/didOpen":
            if path in self.world.files:
                lines = model.lines_from_disk(self.world.files[path])
                self.docs[path] = {"lines": lines}
            else:
                self.docs[path] = {"lines": None}
        elif method == "textDocument/didChange":
            d = self.docs.get(path)
            if d is None and self.sched.get("strict_edits", True) and self.sched.get("require_open", False):
                # a conforming client only changes documents it has opened
                raise Invalid(f"op {k}: didChange for a document that is not open")
            if d is None or d["lines"] is None:
                return
            changes = p.get("contentChanges")
            if not isinstance(changes, list):
                return
            if self.sched.get("strict_edits", True) and self.announced_sync == 1 and any(
                    isinstance(c, dict) and c.get("range") is not None for c in changes):
                # a conforming client obeys the sync kind the server announced
                raise Invalid(f"op {k}: ranged change sent to a server that announced full sync")
            if self.sched.get("sync_kind", 1) == 1:
                changes = changes[:1]
            try:
                for ch in changes:
                    d["lines"] = model.apply_change(d["lines"], ch)
            except (model.InvalidEdit, KeyError, TypeError) as e:
                if self.sched.get("strict_edits", True):
                    raise Invalid(f"op {k}: {e}")
                d["lines"] = None
        elif method == "textDocument/didSave":
            d = self.docs.get(path)
            if d is not None and path in self.world.files:
                d["lines"] = model.lines_from_disk(self.world.files[path])
        elif method == "textDocument/didClose":
            self.docs.pop(path, None)

    # ---- outbound side --------------------------------------------------
    def on_idle(self):
        w = self.writer.writes
        while self.nwrites < len(w):
            k, b = w[self.nwrites]
            self.nwrites += 1
            for f in self.reader.feed(b):
                self.out.append({"op": k, "f": sim.canon(f)})
                r = f.get("result")
                if isinstance(r, dict) and isinstance(r.get("capabilities"), dict):
                    self.announced_sync = r["capabilities"].get("textDocumentSync")
                if isinstance(f.get("method"), str) and f.get("id") is not None:
                    # a request of the server to the client: a conforming client answers it
                    # (here: after `reply_delay` more messages of its own, which are already under way)
                    self.server_requests.append({"id": f["id"], "method": f["method"],
                                                 "due": self.msgs_built + self.reply_delay})
        for h in self.idle_hooks:
            h(self)

    # ---- observations -----------------------------------------------------
    def _observe(self, op: dict):
        what = op["what"]
        srv = self.server
        if what == "buffer":
            from . import oracles

            oracles.c02_compare(self, op)
        elif what == "indexed":
            keys = sorted(sim.canon(list(srv.workspace.keys())))
            self.obs.append({"what": "indexed", "files": keys})
        elif what == "attrs":
            vals = {}
            for name in op["names"]:
                v = getattr(srv, name, "<missing>")
                if isinstance(v, (set, frozenset)):
                    v = sorted(map(str, v))
                try:
                    json.dumps(v)
                except TypeError:
                    v = repr(v)
                vals[name] = sim.canon(v)
            self.obs.append({"what": "attrs", "values": vals})
        elif what == "saved":
            # precondition of C10/C15 comparisons: buffers equal files, every disk change announced
            for path, dd in sorted(self.docs.items()):
                if dd["lines"] is None:
                    continue
                if path not in self.world.files or \
                        model.lines_from_disk(self.world.files[path]) != dd["lines"]:
                    raise Invalid(f"open document {path} differs from the file on disk at the battery")
            for path in sorted(set(self.told) | set(self.world.files)):
                if path in self.docs:
                    continue
                if self.told.get(path) != self.world.files.get(path):
                    raise Invalid(f"disk change of {path} was never announced to the server")
            # which of two files defining the same module/program a server indexes depends on the
            # order it meets them in: such workspaces have no history-independent answer (C15
            # states the precondition, C10's comparison with a fresh server needs it as well)
            import re as _re

            seen = {}
            for path, data in sorted(self.world.files.items()):
                text = data.decode("utf-8", "replace")
                for m in _re.finditer(r"(?im)^[ \t]*(?:module(?![ \t]+(?:procedure|subroutine|function)\b)|program|"
                                      r"submodule[ \t]*\([^)]*\))[ \t]+([a-z_]\w*)", text):
                    name = m.group(1).lower()
                    if seen.setdefault(name, path) != path:
                        raise Invalid(f"top-level unit {name} is defined by {seen[name]} and {path}")
        elif what == "recursion":
            self.obs.append({"what": "recursion", "limit": sys.getrecursionlimit()})
        elif what == "uri_roundtrip":
            from . import oracles

            oracles.c16_uri_roundtrip(op["paths"])
        else:
            raise ValueError(what)
        ev("obs", what)


def _wrap_handle(server, driver: Driver):
    orig = server.handle

    def handle(request):
        if isinstance(request, dict) and "method" not in request and "id" in request and driver.replies_sent:
            return orig(request)  # the client's answer to a server request, not a message of the schedule
        S.sim += 1
        try:
            idx = len(driver.handled)
            try:
                driver.handled.append(jdump(sim.canon(request)))
            except Exception:
                driver.handled.append(repr(request))
            k = driver.sent[idx] if idx < len(driver.sent) else -2
            driver.handled_ops.append(k)
            S.cur_op = k
            S.op_start_steps = S.steps
        finally:
            S.sim -= 1
        try:
            return orig(request)
        finally:
            S.sim += 1
            used = S.steps - S.op_start_steps
            driver.op_steps[k] = used
            ev("handled", k, used)
            if len(driver.handled) % 40 == 0:
                import gc

                gc.collect()
            S.sim -= 1

    server.handle = handle


def run_schedule(sched: dict, fallback_base: str, repo: str, result_cb) -> None:
    """Runs in the forked child. result_cb(dict) delivers the result."""
    S.sim = 1
    S.harness_error = None
    S.budget = sched.get("budget", sim.STEP_BUDGET_DEFAULT)
    # The cyclic collector's timing depends on the allocation history this process inherited
    # from the worker interpreter, and a collection can run Python-level finalisers (extra
    # steps at arbitrary points). It is switched off; the simulator collects explicitly, at
    # fixed points of the schedule and with the step clock stopped.
    import gc

    gc.collect()
    gc.disable()
    ctx = {}

    def finish(status: str):
        S.sim += 1
        try:
            res = _collect(ctx, sched, status)
        except BaseException:
            res = {"status": "HARNESS", "error": traceback.format_exc(), "violations": [],
                   "fired": S.fired, "digest": "", "steps": S.steps}
        result_cb(res)

    S.abort_cb = finish
    try:
        sim.enter_sandbox(fallback_base)
        world = sim.World(sched.get("fsclock"))
        sim._the_world = world
        world.load_tree(sched.get("tree", {}))
        plan = sim.FaultPlan(sched.get("faults", []))
        seams = sim.Seams(world, plan, sched.get("order"))
        seams.install()
        import fortls.langserver as ls
        from fortls.interface import cli
        from fortls.jsonrpc import JSONRPC2Connection, ReadWriter

        ls.Pool = sim.SimPool
        sim.SimPool.plan = sched.get("pool", {})
        sim.SimPool.seen_processes = []
        net = []
        sim.install_network(sched.get("network", "down"), net)
        sim.install_buggify(sched.get("buggify", []))
        cap = sim._Capture(level=logging.WARNING)
        logging.getLogger("fortls").addHandler(cap)
        logging.getLogger("fortls.constants").addHandler(cap)
        sim.install_audit(repo)
        writer = sim.SimWriter()
        driver = Driver(sched, world, writer)
        S.driver = driver
        raw = sim.SimRaw(driver)
        driver.plan = plan
        ctx.update(world=world, seams=seams, writer=writer, driver=driver, net=net, plan=plan)
        from . import oracles as _or

        if "c03" in sched.get("oracles", []):
            driver.idle_hooks.append(_or.c03_stale_hook)
        if "c09" in sched.get("oracles", []) or "c09r" in sched.get("oracles", []):
            driver.idle_hooks.append(_or.c09_range_hook)
        clock = sim.StepClock()
        clock.start()
        os.chdir(sim.real(sched.get("cwd", ROOT)))
        # ---- server code from here on
        S.sim = 0
        escaped = None
        try:
            # the real entry point: argument parsing, stream wiring and LangServer construction
            # are fortls.main()'s own; the harness only learns of the server object when main()
            # calls its run()
            import fortls as _fortls

            if "ls_run" not in sim._orig:
                sim._orig["ls_run"] = ls.LangServer.run

            def _run_hook(server):
                S.sim = 1
                if sched.get("release_version"):
                    from packaging import version as _v

                    server._version = _v.parse(sched["release_version"])
                driver.server = server
                ctx["server"] = server
                _wrap_handle(server, driver)
                S.sim = 0
                return sim._orig["ls_run"](server)

            ls.LangServer.run = _run_hook
            sim.STDIO[0] = raw
            sim.STDIO[1] = writer
            sys.argv = ["fortls"] + sim.realise(list(sched.get("argv", [])))
            sys.stdin = sim.SimStdin(raw, sched.get("bufsize", 8192))
            sys.stdout = sim.SimStdout(writer)
            try:
                _fortls.main()
            finally:
                S.sim += 1
                sys.stdin, sys.stdout = sys.__stdin__, sys.__stdout__
                S.sim -= 1
        except Invalid:
            raise
        except SystemExit as e:
            escaped = f"SystemExit({e.code})"
        except BaseException as e:  # noqa: BLE001
            escaped = "".join(traceback.format_exception(type(e), e, e.__traceback__))
        S.sim = 1
        ctx["escaped"] = escaped
        driver.on_idle()
        finish("done")
    except Invalid as e:
        S.sim = 1
        result_cb({"status": "INVALID", "error": str(e), "violations": [], "fired": S.fired,
                   "digest": "", "steps": S.steps})
    except BaseException:  # noqa: BLE001
        S.sim = 1
        result_cb({"status": "HARNESS", "error": traceback.format_exc(), "violations": [],
                   "fired": S.fired, "digest": "", "steps": S.steps})


def _collect(ctx: dict, sched: dict, status: str) -> dict:
    from . import oracles

    driver: Driver = ctx.get("driver")
    res = {"status": status, "mode": S.mode, "steps": S.steps,
           "pool_steps": getattr(S, "pool_steps", 0), "armed": S.armed}
    if S.harness_error:
        res["status"] = "HARNESS"
        res["error"] = S.harness_error
    if driver is None:
        res.update(violations=S.violations, fired=S.fired, digest="")
        return res
    try:
        driver.on_idle()
    except Exception:
        pass
    ctx["status"] = status
    if status == "done":
        oracles.run_all(ctx, sched)
    elif status == "LIVENESS":
        oracles.run_partial(ctx, sched)
    out_frames = [o["f"] for o in driver.out]
    h = hashlib.sha256()
    h.update(jdump(S.events).encode())
    h.update(jdump([[o["op"], oracles.strip_tb(o["f"])] for o in driver.out]).encode())
    res.update(
        violations=S.violations,
        fired=S.fired,
        digest=h.hexdigest(),
        nops=len(driver.ops),
        handled=len(driver.handled),
        nout=len(out_frames),
        op_steps_max=max(driver.op_steps.values(), default=0),
        audit=S.audit[:50],
        logs=[l for l in S.logs if l["level"] in ("ERROR", "CRITICAL")][:20],
        seam_calls=ctx["seams"].calls,
        pool_processes=sim.SimPool.seen_processes,
        net=ctx["net"],
        obs=driver.obs,
        reach={
            "pipelined_pairs": driver.pipelined_pairs,
            "chunk_inside_utf8": driver.chunk_inside_utf8,
            "split_inside_frame": driver.split_inside_frame,
            "reads": driver.nreads,
            "bytes_in": driver.delivered,
            "bytes_out": sum(len(b) for _, b in ctx["writer"].writes),
            "error_responses": sum(1 for f in out_frames if "error" in f),
            "out_frames_over_8k": sum(1 for _, n in driver.reader.raw_lengths if n > 8192),
            "escaped": bool(ctx.get("escaped")),
        },
        classes=oracles.response_classes(driver),
        expanded=driver.expanded,
    )
    if sim._HIST is not None:
        res["step_hist"] = sorted([list(k) + [v] for k, v in sim._HIST.items()])
    if sched.get("want_transcript"):
        res["transcript"] = oracles.transcript(driver, sched.get("transcript_from"))
    if sched.get("want_effects"):
        eff = oracles.transcript(driver, sched.get("transcript_from", 0))
        for ob in driver.obs:
            eff.append(["obs:" + ob["what"], {k: v for k, v in ob.items() if k != "what"}])
        eff.append(["pool:processes", sim.SimPool.seen_processes])
        eff.append(["net", ctx["net"]])
        eff.append(["debug_log", os.path.exists(sim.real(ROOT + "/fortls_debug.log"))])
        res["effects"] = eff
    if sched.get("want_final"):
        res["final_disk"] = {p: sim.enc_bytes(b) for p, b in sorted(driver.world.files.items())}
        res["final_dirs"] = sorted(driver.world.dirs)
        res["open_docs"] = sorted(driver.docs.keys())
    if sched.get("want_out"):
        res["out"] = [[o["op"], o["f"]] for o in driver.out]
        res["events"] = S.events
        res["handled_msgs"] = driver.handled
    return res
