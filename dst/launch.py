"""Campaign launcher:  ./check <property> [--tier quick|thorough] [--seed N]
                      ./check <property> --replay <file>
                      ./check selftest-determinism | selftest-sensitivity

exit 0: property held on everything explored (known findings are printed)
exit 1: `VIOLATION property=<id> replay=<path>` printed
exit 2: harness error (never 0 after a kill or an internal exception)
"""
from __future__ import annotations

import argparse
import collections
import hashlib
import json
import os
import re
import sys
import time
import traceback

VERIF = os.path.dirname(os.path.dirname(os.path.abspath(__file__)))
sys.dont_write_bytecode = True
if VERIF not in sys.path:
    sys.path.insert(0, VERIF)

from dst import farm as farm_mod  # noqa: E402
from dst import props  # noqa: E402
from dst import shrink as shrink_mod  # noqa: E402
from dst.props import base  # noqa: E402

FINDINGS_FILE = os.path.join(VERIF, "known_findings.json")
OUT_DIR = os.path.join(VERIF, "out")


class Ctx:
    def __init__(self, farm, prop, tier, seed, repo):
        self.farm = farm
        self.prop = prop
        self.tier = tier
        self.seed = seed
        self.repo = repo
        self.tmp = f"/dev/shm/dst-run-{os.getpid()}"
        os.makedirs(self.tmp, exist_ok=True)

    def cleanup(self):
        import shutil

        shutil.rmtree(self.tmp, ignore_errors=True)


def load_findings():
    if not os.path.exists(FINDINGS_FILE):
        return []
    with open(FINDINGS_FILE) as f:
        return json.load(f).get("findings", [])


def match_finding(v, findings):
    for kf in findings:
        if kf.get("status") != "open" or kf["property"] != v["prop"]:
            continue
        if kf.get("clause") and kf["clause"] != v["clause"]:
            continue
        if "site" in kf and kf["site"] == v["site"]:
            return kf
        if "site_re" in kf and re.fullmatch(kf["site_re"], v["site"]):
            return kf
    return None


def attributable(v, prop_id):
    if v["prop"] == prop_id:
        return True
    if v["prop"] in ("LIVENESS", "HANG", "CRASH") and prop_id in base.TERMINATION_PROPS:
        return True
    return False


def as_prop(v, prop_id):
    if v["prop"] in ("LIVENESS", "HANG", "CRASH"):
        v = dict(v)
        v["clause"] = v["prop"].lower() + ":" + v["clause"]
        v["prop"] = prop_id
    return v


def helper_for(P):
    return P.CASE if hasattr(P, "CASE") else base.SingleRun(P)


def run_campaign(prop_id, tier, seed, repo, ncases=None, wall_s=None, verbose=False):
    P = props.get(prop_id)
    H = helper_for(P)
    t0 = time.monotonic()
    plan = P.plan(tier)
    n = ncases or plan["cases"]
    wall = wall_s or plan.get("wall_s", 110)
    hs = getattr(P, "HASHSEEDS", base.HASHSEEDS)
    farm = farm_mod.Farm(repo, hashseeds=hs, nworkers=plan.get("workers", 16))
    ctx = Ctx(farm, prop_id, tier, seed, repo)
    findings = load_findings()
    lines = []
    rc = 0
    try:
        # 1. known findings of this property: replay their committed minimal schedules
        known_seen = {}
        for kf in findings:
            if kf["property"] != prop_id or kf.get("status") != "open" or not kf.get("replay"):
                continue
            with open(os.path.join(VERIF, kf["replay"])) as f:
                obj = json.load(f)
            out = H.replay(ctx, obj)
            hit = any(match_finding(as_prop(v, prop_id), [kf]) for v in out["violations"]
                      if attributable(v, prop_id))
            known_seen[kf["id"]] = {"reproduced": bool(hit), "count": 0}
        # 2. the campaign
        deadline = t0 + wall
        skipped = [0]

        def one(i):
            if time.monotonic() > deadline:
                skipped[0] += 1
                return None
            return H.run_case(ctx, i)

        outcomes = [o for o in farm_mod.pmap(one, range(n), farm.nworkers + 4) if o is not None]
        agg = aggregate(P, prop_id, outcomes)
        # 3. classify violations
        new_sigs = collections.OrderedDict()
        cross = collections.Counter()
        for o in outcomes:
            for v in o["violations"]:
                if not attributable(v, prop_id):
                    cross[f"{v['prop']}:{v['clause']}"] += 1
                    continue
                v = as_prop(v, prop_id)
                kf = match_finding(v, findings)
                if kf is not None:
                    known_seen.setdefault(kf["id"], {"reproduced": False, "count": 0})
                    known_seen[kf["id"]]["count"] += 1
                    known_seen[kf["id"]]["reproduced"] = True
                    continue
                sig = shrink_mod.sig_of(v)
                if sig not in new_sigs:
                    new_sigs[sig] = (o, v)
        harness = [o for o in outcomes if o["status"] in ("HARNESS", "INVALID")]
        for kf in findings:
            if kf["property"] == prop_id and kf.get("status") == "open":
                st = known_seen.get(kf["id"], {"reproduced": False, "count": 0})
                if st["reproduced"]:
                    lines.append(f"KNOWN-FINDING: property={prop_id} {kf['what']} "
                                 f"[{kf['id']}; seen in {st['count']} campaign runs]")
                else:
                    lines.append(f"NOTE: known finding {kf['id']} of {prop_id} did not reproduce "
                                 f"in this run")
        # 4. minimise and confirm new violations.  Signatures are coarse while searching; the
        #    fine site (e.g. the edit class of a model mismatch) is read off the minimised replay.
        os.makedirs(os.path.join(OUT_DIR, "replays"), exist_ok=True)
        reported = []
        groups = collections.OrderedDict()
        for sig, (o, v) in new_sigs.items():
            groups.setdefault(sig, []).append((o, v))
        nrep = sum(min(len(g), 1) for g in groups.values())
        per_budget = max(10.0, min(60.0 if tier == "quick" else 300.0, 150.0 / max(1, nrep)))
        fine_reported = set()
        n_new = 0
        for sig, members in list(groups.items())[:12]:
            for (o, v) in members[:1]:
                rep = confirm_and_write(ctx, P, H, prop_id, sig, o, v, per_budget, seed, tier)
                if rep is None:
                    harness.append({"i": o["i"], "status": "HARNESS",
                                    "error": f"violation {sig} did not reproduce on replay"})
                    continue
                fv = rep.get("fine_violation") or v
                kf = match_finding(fv, findings)
                if kf is not None:
                    known_seen.setdefault(kf["id"], {"reproduced": True, "count": 0})
                    known_seen[kf["id"]]["count"] += 1
                    lines.append(f"KNOWN-FINDING: property={prop_id} {kf['what']} [{kf['id']}; "
                                 f"matched after minimisation]")
                    continue
                fs = shrink_mod.fine_sig(fv)
                if fs in fine_reported:
                    continue
                fine_reported.add(fs)
                n_new += 1
                reported.append(rep)
                lines.append(f"VIOLATION property={prop_id} replay={rep['path']}")
                lines.append(f"  clause={fs[1]} site={fs[2]}")
                lines.append(f"  detail={fv['detail'][:300]!r}")
                rc = 1
        for sig in list(groups)[12:]:
            lines.append(f"VIOLATION property={prop_id} replay=(not minimised) clause={sig[1]} site={sig[2]}")
            n_new += 1
            rc = 1
        wall_used = time.monotonic() - t0
        ev = build_evidence(P, prop_id, tier, seed, agg, outcomes, cross, known_seen, reported,
                            n_new, harness, skipped[0], wall_used, farm)
        # evidence is only (re)written by runs against /repo itself, never a scratch tree
        ev_dir = os.path.join(VERIF, "evidence") if os.path.realpath(repo) == "/repo" \
            else os.path.join(OUT_DIR, "evidence-other-tree")
        os.makedirs(ev_dir, exist_ok=True)
        with open(os.path.join(ev_dir, f"{prop_id}.json"), "w") as f:
            json.dump(ev, f, indent=1, sort_keys=True)
        if harness:
            lines.append(f"HARNESS-ERROR: {len(harness)} run(s) failed inside the harness; first: "
                         f"{str(harness[0].get('error'))[-800:]}")
            if rc == 0:
                rc = 2
        if not outcomes:
            lines.append("HARNESS-ERROR: no case was executed")
            rc = rc or 2
        lines.append(
            f"{prop_id} {tier}: {len(outcomes)} cases, {agg['runs']} runs, "
            f"{agg['distinct_nontrivial']} distinct non-trivial, {agg['steps']} steps, "
            f"{sum(agg['fired'].values())} faults fired, {n_new} new violation signature(s), "
            f"{wall_used:.1f}s")
    finally:
        farm.stop()
        ctx.cleanup()
    for ln in lines:
        print(ln)
    return rc


def confirm_and_write(ctx, P, H, prop_id, sig, o, v, budget_s, seed, tier):
    try:
        rep = H.minimise(ctx, o, sig, budget_s)
    except Exception:
        traceback.print_exc()
        rep = None
    cands = []
    if rep is not None:
        cands.append(rep)
    if o.get("sched") is not None or o.get("gen") is not None or o.get("case") is not None:
        cands.append(H.unminimised(o) if hasattr(H, "unminimised") else
                     {"hashseed": o["hashseed"], "sched": o.get("sched") or P.gen_sched(o["gen"])})
    # fresh interpreters for the confirmation
    fresh = farm_mod.Farm(ctx.repo, hashseeds=getattr(P, "HASHSEEDS", base.HASHSEEDS),
                          nworkers=len(getattr(P, "HASHSEEDS", base.HASHSEEDS)))
    fctx = Ctx(fresh, prop_id, tier, seed, ctx.repo)
    try:
        for cand in cands:
            cand = dict(cand)
            cand.update(property=prop_id, signature=list(sig), seed=seed, tier=tier, case=o["i"],
                        violation=v)
            out = H.replay(fctx, cand)
            got = [as_prop(x, prop_id) for x in out["violations"] if attributable(x, prop_id)]
            hit = [x for x in got if shrink_mod.sig_of(x) == tuple(sig)]
            if hit:
                cand["fine_violation"] = hit[0]
                cand["violation"] = hit[0]
                name = f"{prop_id}-{hashlib.sha1(repr(shrink_mod.fine_sig(hit[0])).encode()).hexdigest()[:10]}.json"
                path = os.path.join(OUT_DIR, "replays", name)
                with open(path, "w") as f:
                    json.dump(cand, f, indent=1)
                cand["path"] = path
                return cand
    finally:
        fresh.stop()
        fctx.cleanup()
    return None


def aggregate(P, prop_id, outcomes):
    fired = collections.Counter()
    sites = collections.Counter()
    armed = 0
    digests = set()
    nontrivial_digests = set()
    steps = ops = runs = 0
    reach = collections.Counter()
    seams = collections.Counter()
    statuses = collections.Counter()
    trans = set()
    modes = collections.Counter()
    for o in outcomes:
        statuses[o["status"]] += 1
        runs += o.get("runs", 1)
        for f in o["fired"]:
            fired[f["kind"]] += 1
            sites[f.get("seam", "?")] += 1
        armed += o.get("armed", 0)
        steps += o.get("steps", 0)
        ops += o.get("ops", 0)
        modes[o.get("mode")] += 1
        for k, val in (o.get("reach") or {}).items():
            reach[k] += int(val)
        for k, val in (o.get("seam_calls") or {}).items():
            seams[k] += val
        if o.get("digest"):
            key = P.key(o) if hasattr(P, "key") else o["digest"]
            digests.add(key)
            nt = P.nontrivial(o) if hasattr(P, "nontrivial") else True
            if nt:
                nontrivial_digests.add(key)
        prev = "^"
        fk = {f["op"]: f["kind"] for f in o["fired"]}
        for c in o.get("classes", [])[:400]:
            trans.add((prev, c))
            prev = c
    return dict(fired=fired, sites=sites, armed=armed, distinct=len(digests),
                distinct_nontrivial=len(nontrivial_digests), steps=steps, ops=ops, runs=runs,
                reach=reach, seams=seams, statuses=statuses, transitions=len(trans), modes=modes)


def build_evidence(P, prop_id, tier, seed, agg, outcomes, cross, known_seen, reported, n_new,
                   harness, skipped, wall_used, farm):
    samples = []
    for o in outcomes:
        if o.get("sched") is not None and len(samples) < 2:
            samples.append(compact_sample(o["sched"]))
        if o.get("sample") is not None and len(samples) < 3:
            samples.append(o["sample"])
    if not samples:
        samples.append({"note": "no schedule echoed"})
    cov = {
        "evaluations": agg["runs"],
        "cases": len(outcomes),
        "distinct_nontrivial": agg["distinct_nontrivial"],
        "distinct_run_digests": agg["distinct"],
        "rule": P.RULE,
        "samples": samples,
        "exhaustive": bool(getattr(P, "EXHAUSTIVE", False)),
        "simulated_time": {"steps": agg["steps"], "operations_handled": agg["ops"]},
        "runs_per_hour": int(agg["runs"] / max(wall_used, 1e-9) * 3600),
        "seeds": {"VERIF_SEED": seed, "cases": f"0..{len(outcomes) - 1}",
                  "hash_seeds": list(farm.hashseeds),
                  "hash_seeds_run_with_python_O": [h for h in farm.hashseeds if h in farm_mod.OPTIMIZED_SEEDS]},
        "faults_fired": dict(agg["fired"]),
        "fault_sites_reached": dict(agg["sites"]),
        "faults_armed": agg["armed"],
        "reach_probes": dict(agg["reach"]),
        "seam_calls": dict(agg["seams"]),
        "distinct_response_transitions": agg["transitions"],
        "run_status": dict(agg["statuses"]),
        "sandbox_mode": {str(k): v for k, v in agg["modes"].items()},
        "cross_observations_other_properties": dict(cross),
        "known_findings": known_seen,
        "new_violation_signatures": n_new,
        "replays": [r["path"] for r in reported],
        "skipped_after_wall_cap": skipped,
        "harness_errors": len(harness),
        "components": {
            "real": ["fortls/* (LangServer.run loop, JSON-RPC framing, handlers, parser, "
                     "preprocessor, AST, CLI and config loading)", "json5", "argparse", "pathlib",
                     "pickle across forked pool workers", "CPython io.BufferedReader",
                     "a real tmpfs directory tree in a private mount namespace"],
            "stub": ["LSP client (schedule driver)", "raw byte pipes (SimRaw/SimWriter)",
                     "multiprocessing.Pool scheduling (SimPool: which worker gets which task)",
                     "directory enumeration order and disk errors (seam wrappers)",
                     "network and pip (fakes)", "clock (step counter via sys.monitoring)"],
        },
    }
    if hasattr(P, "extra_evidence"):
        cov.update(P.extra_evidence(outcomes))
    return {
        "property_id": prop_id, "tier": tier, "seed": seed, "level": P.LEVEL, "coverage": cov,
        "assumptions": list(P.ASSUMPTIONS), "wall_s": round(wall_used, 2),
        "violations": n_new,
    }


def compact_sample(sched, max_ops=14):
    s = {k: v for k, v in sched.items() if k not in ("ops", "tree")}
    tree = sched.get("tree", {})
    s["tree"] = {p: (v if isinstance(v, str) and len(v) < 300 else f"<{len(str(v))} chars>")
                 for p, v in list(tree.items())[:8]}
    ops = []
    for op in sched["ops"][:max_ops]:
        t = json.dumps(op)
        ops.append(op if len(t) < 400 else {"k": op["k"], "abbrev": t[:400]})
    s["ops"] = ops
    s["n_ops"] = len(sched["ops"])
    return s


def do_replay(path, repo):
    with open(path) as f:
        obj = json.load(f)
    prop_id = obj["property"]
    P = props.get(prop_id)
    H = helper_for(P)
    hs = getattr(P, "HASHSEEDS", base.HASHSEEDS)
    farm = farm_mod.Farm(repo, hashseeds=hs, nworkers=len(hs))
    ctx = Ctx(farm, prop_id, obj.get("tier", "quick"), obj.get("seed", 0), repo)
    try:
        out = H.replay(ctx, obj)
    finally:
        farm.stop()
        ctx.cleanup()
    sig = tuple(obj.get("signature") or ())
    got = [as_prop(v, prop_id) for v in out["violations"] if attributable(v, prop_id)]
    for v in got:
        print(f"  violation: clause={v['clause']} site={v['site']}\n    {v['detail'][:600]}")
    if sig and any(shrink_mod.sig_of(v) == sig for v in got):
        print(f"VIOLATION property={prop_id} replay={path}")
        return 1
    if got and not sig:
        print(f"VIOLATION property={prop_id} replay={path}")
        return 1
    print(f"replay of {path}: recorded violation not reproduced (status {out['status']})")
    return 0 if out["status"] == "done" else 2


def main(argv=None):
    # violation texts quote what went over the wire, lone surrogates included
    for st in (sys.stdout, sys.stderr):
        try:
            st.reconfigure(errors="backslashreplace")
        except Exception:
            pass
    ap = argparse.ArgumentParser(prog="check")
    ap.add_argument("what")
    ap.add_argument("--tier", default=os.environ.get("VERIF_TIER", "quick"),
                    choices=["quick", "thorough"])
    ap.add_argument("--seed", type=int, default=int(os.environ.get("VERIF_SEED", "20261001")))
    ap.add_argument("--replay")
    ap.add_argument("--repo", default="/repo")
    ap.add_argument("--cases", type=int)
    ap.add_argument("--wall", type=float)
    ap.add_argument("-v", action="store_true")
    a = ap.parse_args(argv)
    if a.what.startswith("selftest"):
        from dst import selftest

        return selftest.main(a)
    prop_id = a.what.upper()
    try:
        if a.replay:
            return do_replay(a.replay, a.repo)
        return run_campaign(prop_id, a.tier, a.seed, a.repo, a.cases, a.wall, a.v)
    except Exception:
        traceback.print_exc()
        print("HARNESS-ERROR: launcher exception")
        return 2


if __name__ == "__main__":
    sys.exit(main())
