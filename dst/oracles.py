"""Oracles evaluated inside the child, on the recorded history of one run.

Every violation carries the id of the property it belongs to; a check for
property X only fails on violations of X (attribution, DESIGN section 5)."""
from __future__ import annotations

import json
import os
import sys

from . import frames, model, sim
from .sim import CANON, ROOT, S, violation

KNOWN_REQUESTS = {
    "initialize", "textDocument/documentSymbol", "textDocument/completion",
    "textDocument/signatureHelp", "textDocument/definition", "textDocument/references",
    "textDocument/documentHighlight", "textDocument/hover", "textDocument/implementation",
    "textDocument/rename", "textDocument/codeAction", "workspace/symbol", "shutdown",
}
KNOWN_NOTIFICATIONS = {
    "initialized", "textDocument/didOpen", "textDocument/didSave", "textDocument/didClose",
    "textDocument/didChange", "workspace/didChangeWatchedFiles",
    "workspace/didChangeConfiguration", "$/cancelRequest", "$/setTrace", "exit",
}
KNOWN = KNOWN_REQUESTS | KNOWN_NOTIFICATIONS
POSITIONAL = {
    "textDocument/hover", "textDocument/definition", "textDocument/implementation",
    "textDocument/references", "textDocument/documentHighlight", "textDocument/rename",
    "textDocument/signatureHelp", "textDocument/completion", "textDocument/codeAction",
}


def strip_tb(f):
    """frame without the traceback text (line numbers are not part of behaviour)"""
    e = f.get("error")
    if isinstance(e, dict) and isinstance(e.get("data"), dict) and "traceback" in e["data"]:
        f = dict(f)
        e = dict(e)
        e["data"] = {k: v for k, v in e["data"].items() if k != "traceback"}
        f["error"] = e
    return f


def err_site(f) -> str:
    e = f.get("error") or {}
    tb = ""
    if isinstance(e.get("data"), dict):
        tb = e["data"].get("traceback") or ""
    if tb and "Traceback" in tb:
        return sim.site_from_traceback_text(tb)
    return _abstract(str(e.get("message")))


def _abstract(msg: str) -> str:
    import re

    msg = msg.replace(CANON, "<base>")
    msg = re.sub(r"<base>[^\s'\":,]*", "<path>", msg)
    msg = re.sub(r"\d+", "N", msg)
    return msg[:160]


def is_response(f):
    return "id" in f and "method" not in f


def response_classes(driver):
    out = []
    for o in driver.out:
        f = o["f"]
        if is_response(f):
            out.append("E%s" % f["error"].get("code") if isinstance(f.get("error"), dict)
                       else ("N" if f.get("result") is None else "R"))
        else:
            out.append("n:" + str(f.get("method")))
    return out


# ----------------------------------------------------------------------------


def run_all(ctx, sched):
    check_c16_out(ctx, sched)
    check_c16_in(ctx, sched)
    check_c01(ctx, sched)
    check_c17(ctx, sched)
    extra = sched.get("oracles", [])
    if "c03" in extra:
        check_c03(ctx, sched)
    if "c09" in extra:
        check_c09_errors(ctx, sched)
    if "c20" in extra:
        check_c20(ctx, sched)
    if "c17net" in extra and "--disable_autoupdate" in sched.get("argv", []) and ctx["net"]:
        violation("C17", "spawns-or-connects", "network/pip used although autoupdate is disabled",
                  str(ctx["net"])[:300])
    if "c16uri" in extra:
        check_c16_uris(ctx, sched)
    if "c18" in extra:
        check_c18(ctx, sched)


def run_partial(ctx, sched):
    check_c16_out(ctx, sched, final=False)
    check_c17(ctx, sched, conservation=False)


# ---------------------------------------------------------------- C16


def check_c16_out(ctx, sched, final=True):
    d = ctx["driver"]
    err = d.reader.finish() if final else d.reader.error
    if err is not None:
        last = d.reader.frames[-1] if d.reader.frames else None
        violation("C16", "out-" + err.clause, "server->client framing",
                  f"{err}; frames decoded before: {len(d.reader.frames)}; last={str(last)[:200]}")


def check_c16_in(ctx, sched):
    d = ctx["driver"]
    want = [jd(o) for o in d.sent_objs]
    got = d.handled
    n_expect = len(want)
    if d.exit_sent and d.exit_op in d.sent:
        n_expect = d.sent.index(d.exit_op) + 1
    for i, g in enumerate(got):
        if i >= len(want) or g != want[i]:
            violation("C16", "in-decode", "client->server decoding",
                      f"message #{i} seen by the server differs from what was sent: "
                      f"got {g[:300]} want {(want[i] if i < len(want) else None)!s:.300}")
            return
    exit_delivered = d.exit_sent and d.exit_op in d.sent
    if len(got) >= n_expect and not exit_delivered and not d.cut_used and \
            (d.pos < len(d.ops) or d.pending or d.marks):
        # the server stopped reading although correctly framed input remained. It belongs to C16
        # only if the read side itself failed (an exception out of the framing/decoding code);
        # a loop killed by a handler or by the write side is C01's subject.
        tb = ""
        for l in S.logs:
            if l["msg"].startswith("Unexpected error") and l["tb"]:
                tb = l["tb"]
        reading = [ln for ln in tb.splitlines() if "jsonrpc.py" in ln and
                   any(f" in {fn}" in ln for fn in ("_receive", "read", "readline", "read_message",
                                                    "_read_header_content_length"))]
        if reading:
            violation("C16", "in-lost", "client->server decoding: " + sim.site_from_traceback_text(tb),
                      f"the server stopped reading a correctly framed stream at byte {d.delivered} "
                      f"(message op {d.pos - 1 if d.pos else 0}): {tb[-400:]}", coarse="in-lost:read-side")
        return
    if len(got) < n_expect:
        hdrs = sorted({d.ops[k].get("hdr", "cl-first") for k in d.sent[len(got):n_expect]})
        # the server stopped decoding although correctly framed messages remained
        violation("C16", "in-lost", "client->server decoding",
                  f"{n_expect - len(got)} correctly framed message(s) never reached the "
                  f"dispatcher (first: op {d.sent[len(got)]}, header styles {hdrs}); "
                  f"escaped={ctx.get('escaped')!s:.300} last_out={str(d.out[-1]['f'])[:300] if d.out else None}",
                  op=d.sent[len(got)])


def c16_uri_roundtrip(paths):
    from fortls.jsonrpc import path_from_uri, path_to_uri

    for p in paths:
        rp = sim.real(p)
        S.sim -= 1
        try:
            try:
                u = path_to_uri(rp)
                back = path_from_uri(u)
                dec = {st: path_from_uri(frames.uri_encode(rp, st)) for st in ("min", "lower", "over")}
            except Exception as e:  # noqa: BLE001
                u, back, dec = None, repr(e), {}
        finally:
            S.sim += 1
        if back != rp:
            violation("C16", "uri-roundtrip", "path_from_uri(path_to_uri(p)) != p",
                      f"p={p!r} uri={u!r} back={back!r}")
            continue
        try:
            ind = frames.uri_decode(u)
        except Exception as e:  # noqa: BLE001
            ind = repr(e)
        if ind != rp:
            violation("C16", "uri-emit", "URI produced by the server does not decode to the path",
                      f"p={p!r} uri={u!r} decoded={ind!r}")
        for st, got in dec.items():
            if got != rp:
                violation("C16", "uri-accept", f"conforming URI ({st}) decoded to a different path",
                          f"p={p!r} got={got!r}")


def _walk_uris(x, out):
    if isinstance(x, list):
        for v in x:
            _walk_uris(v, out)
    elif isinstance(x, dict):
        for k, v in x.items():
            if k in ("uri", "targetUri") and isinstance(v, str):
                out.append(v)
            elif k == "changes" and isinstance(v, dict):
                out.extend(v.keys())
                _walk_uris(list(v.values()), out)
            else:
                _walk_uris(v, out)


def check_c16_uris(ctx, sched):
    d = ctx["driver"]
    w = ctx["world"]
    # an answer to documentSymbol is about the document that was asked for: URI -> path -> URI
    req_by_op = {k: (i, m) for (k, i, m) in d.requests}
    for o in d.out:
        f = o["f"]
        rq = req_by_op.get(o["op"])
        if rq and rq[1] == "textDocument/documentSymbol" and isinstance(f.get("result"), list) and f["result"]:
            try:
                asked = os.path.normpath(frames.uri_decode(d.ops[o["op"]]["m"]["params"]["textDocument"]["uri"]))
            except Exception:
                continue
            got = set()
            for sym in f["result"]:
                try:
                    got.add(os.path.normpath(frames.uri_decode(sym["location"]["uri"])))
                except Exception:
                    pass
            if got and got != {asked}:
                violation("C16", "uri-roundtrip", "documentSymbol answered for a different document",
                          f"asked {asked!r}, symbols located in {sorted(got)!r}", op=o["op"])
                break
            # ... and its symbols are symbols of that document's text (a URI mapped to another
            # file's path would list the other file's units under the asked URI)
            text = None
            if asked in d.docs and d.docs[asked]["lines"] is not None:
                text = "\n".join(d.docs[asked]["lines"])
            elif asked in d.told:
                text = d.told[asked].decode("utf-8", "replace")
            if text is not None:
                import re as _re

                words = {w_.lower() for w_ in _re.findall(r"[A-Za-z_]\w*", text)}
                foreign = [sym.get("name") for sym in f["result"]
                           if isinstance(sym.get("name"), str) and _re.fullmatch(r"[A-Za-z_]\w*", sym["name"])
                           and sym["name"].lower() not in words]
                if foreign:
                    violation("C16", "uri-roundtrip", "documentSymbol lists units that are not in the asked document",
                              f"asked {asked!r}: {foreign[:5]!r} do not occur in its text", op=o["op"])
                    break
    # files that existed at some point of the session (a deleted file the client has not closed, or
    # whose deletion it has not announced, is still a document of the workspace to the server)
    ever = {os.path.normpath(p_) for p_ in sched.get("tree", {}) if not p_.endswith("/")}
    ever |= {os.path.normpath(op_["path"]) for op_ in sched.get("ops", []) if op_.get("k") == "env" and op_.get("do") == "write"}
    seen = set()
    for o in d.out:
        uris = []
        _walk_uris(o["f"].get("result"), uris)
        _walk_uris(o["f"].get("params"), uris)
        for u in uris:
            if u in seen:
                continue
            seen.add(u)
            try:
                p = os.path.normpath(frames.uri_decode(u))
            except Exception as e:  # noqa: BLE001
                violation("C16", "uri-emit", "server emitted an undecodable URI", f"{u!r}: {e!r}",
                          op=o["op"])
                return
            if p not in w.files and p not in w.dirs and p not in ever:
                violation("C16", "uri-emit", "server emitted a URI that decodes to no file of the workspace",
                          f"{u!r} -> {p!r}", op=o["op"])
                return


def jd(x):
    return json.dumps(x, sort_keys=True, ensure_ascii=True, separators=(",", ":"))


# ---------------------------------------------------------------- C01


def check_c01(ctx, sched):
    d = ctx["driver"]
    outs = d.out
    for o in outs:
        f = o["f"]
        if f.get("jsonrpc") != "2.0":
            violation("C01", "shape", "frame without jsonrpc 2.0", str(f)[:300], op=o["op"])
            break
    delivered = set(d.sent)
    exit_pos = d.exit_op if (d.exit_sent and d.exit_op in delivered) else None
    expect = [(k, i, m) for (k, i, m) in d.requests
              if k in delivered and (exit_pos is None or k < exit_pos)]
    resps = [(o["op"], o["f"]) for o in outs if is_response(o["f"])]
    exp_ids = [jd(i) for (_, i, _) in expect]
    got_ids = [jd(f.get("id")) for (_, f) in resps]
    req_by_op = {k: (i, m) for (k, i, m) in d.requests}
    died = False
    if ctx.get("escaped"):
        violation("C01", "died", "exception escaped LangServer.run", str(ctx["escaped"])[-1500:])
        died = True
    elif exit_pos is None and not d.eof and (d.pos < len(d.ops) or d.pending or d.marks):
        died = True
    elif len(d.handled) < (len(d.sent) if exit_pos is None else d.sent.index(exit_pos) + 1):
        died = True
    if died and not ctx.get("escaped"):
        k = d.sent[len(d.handled)] if len(d.handled) < len(d.sent) else d.pos
        msgs = [o["f"] for o in outs[-3:]]
        site = "server loop ended before exit"
        for m in reversed(msgs):
            if m.get("method") == "window/showMessage":
                site = _abstract(str(m["params"].get("message")))
                break
        violation("C01", "died", site,
                  f"run() returned with messages outstanding (next op {k}); last frames: "
                  f"{str(msgs)[:600]}", op=k)
    # pairing / order / exactly-once / notification silence
    if got_ids != exp_ids:
        # find the first divergence to report something specific
        j = 0
        while j < min(len(got_ids), len(exp_ids)) and got_ids[j] == exp_ids[j]:
            j += 1
        if j < len(got_ids):
            opk, f = resps[j]
            rq = req_by_op.get(opk)
            if rq is None:
                m = d.ops[opk].get("m", {}).get("method") if 0 <= opk < len(d.ops) else None
                site = f"response id {f.get('id')!r} emitted while handling notification {m}"
                violation("C01", "spurious-response", site, str(strip_tb(f))[:500], op=opk)
            else:
                violation("C01", "pairing", f"response id mismatch for {rq[1]}",
                          f"response #{j} has id {got_ids[j]}, expected {exp_ids[j] if j < len(exp_ids) else None}",
                          op=opk)
        elif not died:
            k, i, m = expect[j]
            violation("C01", "missing-response", f"no response for {m}", f"request id {i!r} op {k}",
                      op=k)
    else:
        for (opk, f), (k, i, m) in zip(resps, expect):
            if opk != k:
                violation("C01", "order", f"response for {m} not emitted while handling it",
                          f"id {i!r}: emitted at op {opk}, request was op {k}", op=k)
                break
    # per-response shape
    faulted_ops = {f["op"] for f in S.fired}
    for opk, f in resps:
        rq = req_by_op.get(opk)
        has_r, has_e = "result" in f, "error" in f
        if has_r == has_e:
            violation("C01", "result-xor-error", "response with both or neither", str(f)[:300], op=opk)
            continue
        if has_e:
            e = f["error"]
            if not (isinstance(e, dict) and isinstance(e.get("code"), int)
                    and not isinstance(e.get("code"), bool) and isinstance(e.get("message"), str)):
                violation("C01", "error-shape", "malformed error object", str(e)[:300], op=opk)
                continue
            if rq is not None:
                method = rq[1]
                if method not in KNOWN:
                    if e["code"] != -32601:
                        violation("C01", "unknown-method-code", f"code {e['code']}", method, op=opk)
                elif e["code"] != -32603:
                    violation("C01", "handler-error-code",
                              f"known method {method} answered error code {e['code']}", str(e)[:300],
                              op=opk)
        elif rq is not None and rq[1] not in KNOWN:
            violation("C01", "unknown-method-result", "unknown method got a result", rq[1], op=opk)


# ---------------------------------------------------------------- C17


def check_c17(ctx, sched, conservation=True):
    dbg = ROOT + "/fortls_debug.log"
    for a in S.audit:
        kind = a[0]
        if kind == "open-write" and a[1] == dbg:
            continue
        if kind in ("exec", "compile"):
            violation("C17", "evaluates-text", f"{kind} of {a[1]} @ {a[3]}", str(a)[:400])
        elif kind == "open-write" or kind in sim._MUTATORS:
            violation("C17", "writes-file", f"{kind} @ {a[3]}", str(a)[:400])
        elif kind == "monitor-error":
            pass
        else:
            violation("C17", "spawns-or-connects", f"{kind} @ {a[3]}", str(a)[:400])
    if not conservation:
        return
    w = ctx["world"]
    S.sim += 1
    realfs = w.snapshot_real()
    want = dict(w.files)
    for lp, target in w.links.items():
        want[lp] = b"->" + target.encode()
    for dname in w.dirs:
        if dname != CANON:
            want[dname + "/"] = b""
    for p in sorted(set(realfs) | set(want)):
        if p == dbg or p == CANON + "/":
            continue
        if p not in want:
            violation("C17", "conservation", "file or directory created",
                      f"{p} exists after the run but the client never created it "
                      f"({len(realfs[p])} bytes)")
        elif p not in realfs:
            violation("C17", "conservation", "file or directory deleted", p)
        elif realfs[p] != want[p]:
            violation("C17", "conservation", "file modified", p)
    for c in sched.get("canaries", []):
        if os.path.exists(sim.real(c)):
            violation("C17", "canary", "content-derived code ran", c)


# ---------------------------------------------------------------- C02


def c02_compare(driver, op):
    srv = driver.server
    for path in sorted(driver.docs):
        d = driver.docs[path]
        if d["lines"] is None:
            continue
        fo = srv.workspace.get(sim.real(path))
        if fo is None:
            refused = [l for l in S.logs if "Error while parsing file" in l["msg"] and path in l["msg"]]
            if refused:
                # the indexer refused the text: that is C03's subject, reported under C03
                violation("C03", "parse-failure", sim.site_from_traceback_text(refused[-1]["tb"]),
                          refused[-1]["tb"][-1200:])
                d["lines"] = None
            else:
                violation("C02", "buffer-missing", "open document not held by the server", path)
            continue
        want = model.norm_tabs(d["lines"])
        got = model.norm_tabs(list(fo.contents_split))
        if got != want:
            cls = _c02_class(driver, path)
            i = 0
            while i < min(len(got), len(want)) and got[i] == want[i]:
                i += 1
            violation(
                "C02", "buffer-mismatch", cls,
                f"{path}: server has {len(got)} lines, client {len(want)}; first difference at "
                f"line {i}: server={got[i] if i < len(got) else None!r} "
                f"client={want[i] if i < len(want) else None!r}",
                coarse="buffer-mismatch",
            )
            d["lines"] = None  # masked from here on: later coordinates are shifted
            continue
        if fo.nLines != len(fo.contents_split):
            violation("C02", "nlines", "nLines differs from len(contents_split)", path)
        if len(fo.contents_pp) != len(fo.contents_split):
            violation("C02", "pp-length", "contents_pp length differs from contents_split", path)


def _c02_class(driver, path):
    """edit class of the most recent didChange on path (signature of a model mismatch)"""
    uri_path = path
    for k in range(driver.pos - 1, -1, -1):
        op = driver.ops[k]
        if op["k"] != "msg":
            continue
        m = op["m"]
        if m.get("method") in ("textDocument/didChange", "textDocument/didOpen", "textDocument/didSave"):
            try:
                p = os.path.normpath(frames.uri_decode(m["params"]["textDocument"]["uri"]))
            except Exception:
                continue
            if p != uri_path:
                continue
            if m["method"] != "textDocument/didChange":
                return m["method"].split("/")[1]
            cls = []
            for ch in m["params"]["contentChanges"]:
                t = ch.get("text", "")
                r = ch.get("range")
                c = []
                c.append("full" if r is None else
                         ("single-line" if r["start"]["line"] == r["end"]["line"] else "multi-line"))
                if t == "":
                    c.append("delete")
                elif t[-1] in "\r\n":
                    c.append("text-ends-in-linebreak")
                elif "\n" in t or "\r" in t:
                    c.append("text-with-linebreak")
                else:
                    c.append("text-no-linebreak")
                cls.append("+".join(c))
            return "didChange[" + ",".join(sorted(set(cls))) + "]"
    return "?"


# ---------------------------------------------------------------- C03


PARSE_FAIL_MARKERS = ("Error during parsing", "Could not apply change")


def check_c03(ctx, sched):
    d = ctx["driver"]
    injected_ops = {f["op"] for f in S.fired}
    for o in d.out:
        f = o["f"]
        if f.get("method") == "window/showMessage":
            msg = str(f.get("params", {}).get("message"))
            if any(mk in msg for mk in PARSE_FAIL_MARKERS):
                if o["op"] in injected_ops and "Error during parsing" not in msg:
                    continue
                site = _c03_site(o["op"]) or _abstract(msg)
                violation("C03", "parse-failure", site, msg[:300], op=o["op"])
    injected_ops2 = {f["op"] for f in S.fired}
    for l in S.logs:
        if l["tb"] and l["msg"].startswith("error handling request") and l["op"] not in injected_ops2:
            site = sim.site_from_traceback_text(l["tb"])
            if not any(v["prop"] == "C03" and v["site"] == site for v in S.violations):
                violation("C03", "index-raises", site, l["tb"][-1200:], op=l["op"])
    seen = set()
    for l in S.logs:
        if "Error while parsing file" in l["msg"] and l["tb"]:
            site = sim.site_from_traceback_text(l["tb"])
            if site not in seen:
                seen.add(site)
                if not any(v["prop"] == "C03" and v["site"] == site for v in S.violations):
                    violation("C03", "parse-failure", site, l["tb"][-1200:], op=l["op"])
    for o in d.out:
        f = o["f"]
        if is_response(f) and "error" in f and 0 <= o["op"] < len(d.ops):
            m = d.ops[o["op"]].get("m", {}).get("method", "?")
            violation("C03", "query-error", f"{m.split('/')[-1]}: {err_site(f)}",
                      str(strip_tb(f))[:400], op=o["op"])


def _c03_site(op):
    for l in S.logs:
        if l["op"] == op and l["tb"]:
            return sim.site_from_traceback_text(l["tb"])
    return None


def c03_stale_hook(driver):
    """idle hook: no answer may mention the sentinel of an older version than the one in the
    text the client holds now (model documents, else files on disk)."""
    import re

    tag = driver.sched.get("sentinel_tag")
    if not tag:
        return
    start = getattr(driver, "_c03_seen", 0)
    driver._c03_seen = len(driver.out)
    new = [o for o in driver.out[start:] if is_response(o["f"]) and "result" in o["f"]]
    if not new:
        return
    pat = re.compile(re.escape(tag) + r"_(\w+?)_v(\d+)", re.I)
    cur = {}
    texts = []
    for p, dd in driver.docs.items():
        if dd["lines"] is not None:
            texts.append("\n".join(dd["lines"]))
    for p, data in driver.world.files.items():
        if p not in driver.docs or driver.docs[p]["lines"] is None:
            texts.append(data.decode("utf-8", "replace"))
    for t in texts:
        for mt in pat.finditer(t):
            fid, ver = mt.group(1).lower(), int(mt.group(2))
            cur[fid] = max(cur.get(fid, 0), ver)
    for o in new:
        for mt in pat.finditer(json.dumps(o["f"]["result"])):
            fid, ver = mt.group(1).lower(), int(mt.group(2))
            if fid in cur and ver < cur[fid]:
                k = o["op"]
                m = driver.ops[k]["m"].get("method") if 0 <= k < len(driver.ops) else "?"
                violation("C03", "stale-version",
                          f"symbols of an older version served ({m.split('/')[-1]})",
                          f"file {fid}: answer mentions v{ver}, current is v{cur[fid]} (op {k})", op=k)
                return


# ---------------------------------------------------------------- C09


def check_c09_errors(ctx, sched):
    d = ctx["driver"]
    req_by_op = {k: (i, m) for (k, i, m) in d.requests}
    for o in d.out:
        f = o["f"]
        if not is_response(f):
            continue
        rq = req_by_op.get(o["op"])
        if rq is None or rq[1] not in POSITIONAL:
            continue
        if "error" in f:
            violation("C09", "internal-error", f"{rq[1].split('/')[1]}: {err_site(f)}",
                      str(strip_tb(f))[:400] + " :: " + _req_desc(d, o["op"]), op=o["op"])
        else:
            bad = shape_error(rq[1], f.get("result"))
            if bad:
                violation("C09", "shape", f"{rq[1].split('/')[1]}: {bad}",
                          str(f.get("result"))[:400], op=o["op"])


def _req_desc(d, k):
    try:
        m = d.ops[k]["m"]
        p = m["params"]
        pos = p.get("position") or p.get("range")
        path = os.path.normpath(frames.uri_decode(p["textDocument"]["uri"]))
        lines = None
        if path in d.docs and d.docs[path]["lines"] is not None:
            lines = d.docs[path]["lines"]
        elif path in d.world.files:
            lines = model.lines_from_disk(d.world.files[path])
        txt = None
        if lines is not None and isinstance(pos, dict) and "line" in pos and 0 <= pos["line"] < len(lines):
            txt = lines[pos["line"]]
        return f"{m['method']} {pos} line={txt!r}"
    except Exception:
        return "?"


def _is_pos(p):
    return (isinstance(p, dict) and isinstance(p.get("line"), int) and isinstance(p.get("character"), int)
            and not isinstance(p.get("line"), bool))


def _is_range(r):
    return isinstance(r, dict) and _is_pos(r.get("start")) and _is_pos(r.get("end"))


def _is_location(x):
    return isinstance(x, dict) and isinstance(x.get("uri"), str) and _is_range(x.get("range"))


def _is_markup(x):
    if isinstance(x, str):
        return True
    if isinstance(x, dict):
        if isinstance(x.get("kind"), str) and isinstance(x.get("value"), str):
            return True
        if isinstance(x.get("language"), str) and isinstance(x.get("value"), str):
            return True
    return False


def shape_error(method, r):
    """None when r has the shape LSP prescribes for the method's result."""
    if r is None:
        return None
    if method in ("textDocument/definition", "textDocument/implementation"):
        if _is_location(r) or (isinstance(r, list) and all(_is_location(x) for x in r)):
            return None
        return "not a Location | Location[] | null"
    if method == "textDocument/references":
        if isinstance(r, list) and all(_is_location(x) for x in r):
            return None
        return "not Location[] | null"
    if method == "textDocument/documentHighlight":
        if isinstance(r, list) and all(isinstance(x, dict) and _is_range(x.get("range")) for x in r):
            return None
        return "not DocumentHighlight[] | null"
    if method == "textDocument/hover":
        if isinstance(r, dict) and "contents" in r:
            c = r["contents"]
            if _is_markup(c) or (isinstance(c, list) and all(_is_markup(x) for x in c)):
                if "range" not in r or _is_range(r["range"]):
                    return None
        return "not a Hover | null"
    if method == "textDocument/signatureHelp":
        if isinstance(r, dict) and isinstance(r.get("signatures"), list):
            for s in r["signatures"]:
                if not (isinstance(s, dict) and isinstance(s.get("label"), str)):
                    return "signature without label"
                for p in s.get("parameters", []) or []:
                    if not (isinstance(p, dict) and isinstance(p.get("label"), (str, list))):
                        return "parameter without label"
                    if "documentation" in p and not _is_markup(p["documentation"]):
                        return "parameter documentation not markup"
                if "documentation" in s and not _is_markup(s["documentation"]):
                    return "signature documentation not markup"
            for key in ("activeParameter", "activeSignature"):
                if key in r and r[key] is not None and not (
                        isinstance(r[key], int) and not isinstance(r[key], bool) and r[key] >= 0):
                    return f"{key} not a non-negative integer"
            return None
        return "not a SignatureHelp | null"
    if method == "textDocument/completion":
        items = r.get("items") if isinstance(r, dict) else r
        if isinstance(items, list):
            for it in items:
                if not (isinstance(it, dict) and isinstance(it.get("label"), str)):
                    return "completion item without string label"
                if "kind" in it and not (isinstance(it["kind"], int) and 1 <= it["kind"] <= 25):
                    return f"completion item kind {it.get('kind')!r} outside 1..25"
                if "documentation" in it and not _is_markup(it["documentation"]):
                    return "completion documentation not markup"
                if "detail" in it and not isinstance(it["detail"], str):
                    return "completion detail not a string"
                if "insertText" in it and not isinstance(it["insertText"], str):
                    return "insertText not a string"
            return None
        return "not CompletionItem[] | CompletionList | null"
    if method == "textDocument/rename":
        if isinstance(r, dict) and (isinstance(r.get("changes"), dict) or "documentChanges" in r):
            for uri, edits in (r.get("changes") or {}).items():
                if not isinstance(edits, list):
                    return "changes value not a list"
                for e in edits:
                    if not (isinstance(e, dict) and _is_range(e.get("range")) and
                            isinstance(e.get("newText"), str)):
                        return "not a TextEdit"
            return None
        return "not a WorkspaceEdit | null"
    if method == "textDocument/codeAction":
        if isinstance(r, list) and all(isinstance(x, dict) and isinstance(x.get("title"), str) for x in r):
            return None
        return "not (Command | CodeAction)[] | null"
    return None


def walk_ranges(x, uri, out):
    """collect (uri, range) pairs from any LSP value"""
    if isinstance(x, list):
        for v in x:
            walk_ranges(v, uri, out)
    elif isinstance(x, dict):
        if isinstance(x.get("uri"), str):
            uri = x["uri"]
        ch = x.get("changes")
        if isinstance(ch, dict):
            for u, edits in ch.items():
                walk_ranges(edits, u, out)
        for key, v in x.items():
            if key == "changes" and isinstance(v, dict):
                continue
            if key in ("range", "selectionRange", "targetRange", "targetSelectionRange",
                       "originSelectionRange") and _is_range(v):
                u = x.get("targetUri") if key.startswith("target") and isinstance(x.get("targetUri"), str) else uri
                out.append((u, v, key))
            else:
                walk_ranges(v, uri, out)


def c09_range_hook(driver):
    """idle hook: check every range in frames emitted since the last idle point against
    the client-model text in force now (only sound when messages are not pipelined)."""
    start = getattr(driver, "_c09_seen", 0)
    driver._c09_seen = len(driver.out)
    req_by_op = {k: (i, m) for (k, i, m) in driver.requests}
    for o in driver.out[start:]:
        f = o["f"]
        k = o["op"]
        ctx_uri = None
        payload = None
        what = None
        if is_response(f) and "result" in f:
            rq = req_by_op.get(k)
            if rq is None:
                continue
            what = rq[1]
            try:
                ctx_uri = driver.ops[k]["m"]["params"]["textDocument"]["uri"]
            except Exception:
                ctx_uri = None
            payload = f["result"]
        elif f.get("method") == "textDocument/publishDiagnostics":
            what = "publishDiagnostics"
            payload = f.get("params")
        else:
            continue
        pairs = []
        walk_ranges(payload, ctx_uri, pairs)
        qual = ""
        try:
            m_ = driver.ops[k]["m"]
            pos_ = m_["params"]["position"]
            path_ = os.path.normpath(frames.uri_decode(m_["params"]["textDocument"]["uri"]))
            ls_ = driver.docs[path_]["lines"] if path_ in driver.docs else \
                model.lines_from_disk(driver.told.get(path_, b""))
            import re as _re

            if ls_ and 0 <= pos_["line"] < len(ls_) and _re.match(r"\s*include\s*['\"]", ls_[pos_["line"]], _re.I):
                qual = " on an INCLUDE statement"
            elif what.endswith("/definition") and isinstance(payload, dict) and isinstance(payload.get("range"), dict) \
                    and payload.get("uri") != m_["params"]["textDocument"]["uri"] \
                    and payload["range"].get("start") == payload["range"].get("end") \
                    and payload["range"]["start"].get("character") == 0:
                # the same call site seen from the answer: find_in_scope turns any quoted string that
                # equals the path of an INCLUDE statement of the document into Include(<included
                # file>, <that statement's line>) - a zero-width link at column 0 of the included
                # file; recognised when the document really has an INCLUDE statement for that file
                tgt_ = os.path.basename(frames.uri_decode(payload["uri"]))
                # (the model of the document may be masked after an edit the model cannot follow:
                # then the last text the server was told about / the file stand in for it)
                txt_ = "\n".join(ls_ or []) + "\n" + driver.told.get(path_, b"").decode("utf-8", "replace") + "\n" + \
                    driver.world.files.get(path_, b"").decode("utf-8", "replace")
                incs_ = {os.path.basename(x.strip()) for x in
                         _re.findall(r"(?im)^\s*include\s*['\"]([^'\"]*)", txt_)}
                if tgt_ in incs_ or any(tgt_ == os.path.basename(x) for x in incs_):
                    qual = " on an INCLUDE statement"
        except Exception:
            pass
        for uri, rng, key in pairs:
            bad = _range_bad(driver, uri, rng)
            if bad:
                site = f"{what.split('/')[-1]}{qual}: {bad[0]}"
                if not any(v["prop"] == "C09" and v["site"] == site for v in S.violations):
                    violation("C09", "range", site,
                              f"{bad[1]} uri={uri} range={rng} :: {_req_desc(driver, k)}", op=k)
                break


def _range_bad(driver, uri, rng):
    if uri is None:
        return None
    try:
        path = os.path.normpath(frames.uri_decode(uri))
    except Exception as e:
        return ("uri undecodable", repr(e))
    lines = None
    if path in driver.docs:
        lines = driver.docs[path]["lines"]
        if lines is None:
            return None  # model masked for this document
    elif path in driver.told:
        # closed file: the text the server was last told about (a change on disk that no
        # notification announced cannot be blamed on the server)
        lines = model.lines_from_disk(driver.told[path])
    else:
        return ("location in a file the client never showed or has closed after deleting", path)
    s, e = rng["start"], rng["end"]
    for nm, p in (("start", s), ("end", e)):
        if not (0 <= p["line"] < len(lines)):
            return (f"{nm} line outside document", f"line {p['line']} of {len(lines)}")
        if not (0 <= p["character"] <= len(lines[p["line"]])):
            return (f"{nm} character outside line",
                    f"character {p['character']} > len {len(lines[p['line']])} of {lines[p['line']]!r}")
    if (e["line"], e["character"]) < (s["line"], s["character"]):
        return ("end before start", "")
    return None


# ---------------------------------------------------------------- C20


def check_c20(ctx, sched):
    d = ctx["driver"]
    for o in d.out:
        f = o["f"]
        if is_response(f) and "error" in f:
            e = f["error"]
            txt = json.dumps(e)
            rec = "RecursionError" in txt or "maximum recursion depth" in txt
            m = d.ops[o["op"]]["m"].get("method") if 0 <= o["op"] < len(d.ops) else "?"
            violation("C20", "recursion" if rec else "internal-error",
                      err_site(f), f"{m}: " + str(strip_tb(f))[:400], op=o["op"])
        elif f.get("method") == "window/showMessage":
            msg = str(f["params"].get("message"))
            if "recursion" in msg.lower() or any(mk in msg for mk in PARSE_FAIL_MARKERS) \
                    or "An exception has occured" in msg:
                site = _c03_site(o["op"]) or _abstract(msg.split("\n")[0])
                violation("C20", "recursion" if "recursion" in msg.lower() else "index-failure",
                          site, msg[:400], op=o["op"])
    for l in S.logs:
        if l["tb"] and ("RecursionError" in l["tb"]):
            site = sim.site_from_traceback_text(l["tb"])
            if not any(v["prop"] == "C20" and v["site"].endswith(site) for v in S.violations):
                violation("C20", "recursion", "logged: " + site, l["tb"][-800:], op=l["op"])
        elif l["tb"] and l["msg"].startswith("error handling request"):
            # an exception swallowed by the notification dispatcher: the document was not
            # (completely) indexed
            site = sim.site_from_traceback_text(l["tb"])
            if not any(v["prop"] == "C20" and v["site"].endswith(site) for v in S.violations):
                violation("C20", "index-failure", "notification handler raised: " + site, l["tb"][-800:],
                          op=l["op"])


# ---------------------------------------------------------------- transcripts


def _sort_key(x):
    return jd(x)


def normalise_result(method, r):
    """remove only what LSP leaves unordered"""
    if isinstance(r, list):
        return sorted((normalise_result(method, x) for x in r), key=_sort_key)
    if isinstance(r, dict):
        out = {}
        for k, v in r.items():
            if k == "changes" and isinstance(v, dict):
                out[k] = {u: sorted(e, key=_sort_key) for u, e in v.items()}
            elif k in ("diagnostics", "items", "relatedInformation") and isinstance(v, list):
                out[k] = sorted((normalise_result(method, x) for x in v), key=_sort_key)
            else:
                out[k] = normalise_result(method, v)
        return out
    return r


def transcript(driver, start=None):
    """[label, normalised answer] for every frame emitted from the battery (or `start`) on"""
    if start is None:
        start = driver.battery_from
    if start is None:
        return []
    out = []
    req_by_op = {k: (i, m) for (k, i, m) in driver.requests}

    ordinal = {}
    seen_ops = {}

    def label(k):
        lab = driver.battery_labels.get(k)
        if lab:
            return lab
        if k in seen_ops:
            return seen_ops[k]
        if 0 <= k < len(driver.ops) and driver.ops[k]["k"] == "msg":
            m = driver.ops[k]["m"].get("method", "?")
        else:
            m = "?"
        # ordinal among the non-battery operations of that method that produced output
        ordinal[m] = ordinal.get(m, 0) + 1
        seen_ops[k] = m if m == "initialize" else f"{m}#{ordinal[m]}"
        return seen_ops[k]

    by_op = {}
    for o in driver.out:
        k = o["op"]
        if k < start:
            continue
        f = o["f"]
        slot = by_op.setdefault(k, {"notifications": []})
        if is_response(f):
            rq = req_by_op.get(k)
            if "error" in f:
                e = f["error"]
                slot["response"] = {"error": {"code": e.get("code"), "message": e.get("message"),
                                              "site": err_site(f)}}
            else:
                slot["response"] = {"result": normalise_result(rq[1] if rq else "", f.get("result"))}
        else:
            slot["notifications"].append({"method": f.get("method"),
                                          "params": normalise_result("", f.get("params"))})
    # one entry per client message from `start` on, whether or not it produced output: the two
    # sides of a comparison then always have the same labels and differ only in content
    for k in range(max(start, 0), len(driver.ops)):
        if driver.ops[k]["k"] != "msg":
            continue
        out.append([label(k), by_op.get(k, {"notifications": []})])
    return out


# ---------------------------------------------------------------- C18

CONFIG_NAMES = (".fortlsrc", ".fortls.json", ".fortls")


def check_c18(ctx, sched):
    import re

    from .props import c18

    d = ctx["driver"]
    tree = sched.get("tree", {})
    files = {p for p in tree if not p.endswith("/") and not (isinstance(tree[p], dict) and "symlink" in tree[p])}
    dirs = {p.rstrip("/") for p in tree if p.endswith("/")}
    for f in files:
        x = os.path.dirname(f)
        while x.startswith(ROOT) and x != ROOT:
            dirs.add(x)
            x = os.path.dirname(x)
    cfg = sched["c18"]
    expected = c18.expected_index(ROOT, files, dirs, cfg)
    faulted = {f["path"] for f in S.fired if f["seam"] == "open" and f["kind"] != "race"}
    if any(os.path.basename(p) in CONFIG_NAMES for p in faulted):
        return  # the configuration itself was hit: C19's subject
    argv = sched.get("argv", [])
    feats = []
    for k in ("source_dirs", "excl_paths", "incl_suffixes", "excl_suffixes"):
        v = cfg.get(k)
        if v is None:
            continue
        chan = "cli" if ("--" + k) in argv else "file"
        kinds = sorted({("abs" if os.path.isabs(x) else "dot" if x in (".", "./") else
                         "glob" if re.search(r"[*?\[]", x) else "lit") for x in v})
        feats.append(f"{k}={chan}:{'+'.join(kinds)}")
    feat = " ".join(feats) or "defaults"
    init = [o["f"] for o in d.out if is_response(o["f"]) and o["op"] == 0]
    if init and "error" in init[0]:
        violation("C18", "initialize-failed", err_site(init[0]),
                  f"{feat}: {str(strip_tb(init[0]))[:300]}", coarse="initialize-failed:" + err_site(init[0]))
        return
    obs = [o for o in d.obs if o["what"] == "indexed"]
    if not obs:
        return
    got = set(obs[0]["files"])
    missing = expected - got - faulted
    extra = got - expected
    if missing or extra:
        kind = "+".join(k for k, v in (("missing", missing), ("extra", extra)) if v)
        violation("C18", "index-set", f"{kind} [{feat}]",
                  f"expected {sorted(expected)} got {sorted(got)} faulted {sorted(faulted)}; cfg={cfg}",
                  coarse="index-set:" + kind)
        return
    # black box: the same set seen through workspace/symbol
    names = set()
    for o in d.out:
        f = o["f"]
        if is_response(f) and isinstance(f.get("result"), list):
            for sym in f["result"]:
                if isinstance(sym, dict) and str(sym.get("name", "")).startswith("umod"):
                    try:
                        names.add((sym["name"], os.path.normpath(frames.uri_decode(sym["location"]["uri"]))))
                    except Exception:
                        names.add((sym.get("name"), "?"))
    want = set()
    for p in expected - faulted:
        m = re.search(r"module (umod\d+)", tree[p] if isinstance(tree[p], str) else "")
        if m:
            want.add((m.group(1), p))
    if names != want and not (expected & faulted):
        violation("C18", "symbols", f"workspace/symbol disagrees with the indexed set [{feat}]",
                  f"want {sorted(want)} got {sorted(names)}", coarse="symbols")
    # a faulted file must be announced
    for p in sorted(expected & faulted):
        if p in got:
            continue
        if not any(o["f"].get("method") == "window/showMessage" and p in str(o["f"]["params"].get("message"))
                   for o in d.out):
            violation("C18", "unannounced", "an unreadable source file was dropped silently", p)
