"""Worker interpreter: executes runs, each in a freshly forked child.

Started by launch.py as  `python -B worker.py --repo <dir>`  with the
PYTHONHASHSEED the schedules routed to it require.  Protocol: one JSON task
per stdin line -> one JSON summary per stdout line.
"""
from __future__ import annotations

import json
import os
import select
import shutil
import signal
import sys
import time
import traceback

RUN_TIMEOUT = 120.0


def _setup_path(repo: str):
    here = os.path.dirname(os.path.dirname(os.path.abspath(__file__)))
    sys.dont_write_bytecode = True
    for p in (here, repo):
        if p in sys.path:
            sys.path.remove(p)
    sys.path.insert(0, here)
    sys.path.insert(0, repo)


def preimport():
    """import everything fortls can import lazily, so that forked children never import"""
    import importlib
    import pkgutil

    import fortls
    import fortls.langserver  # noqa: F401

    for m in pkgutil.walk_packages(fortls.__path__, "fortls."):
        if m.name.endswith(("schema", "__main__")):
            continue
        try:
            importlib.import_module(m.name)
        except Exception:
            pass
    import encodings.idna  # noqa: F401
    import multiprocessing.pool  # noqa: F401
    import pickle  # noqa: F401
    import urllib.error  # noqa: F401
    import urllib.request  # noqa: F401

    import json5  # noqa: F401
    from packaging import version  # noqa: F401

    from dst import battery, oracles, run, sim  # noqa: F401
    # warm json5's lazily built parser tables and the re cache the same way in every worker
    json5.loads('{"a": [1, 2.5, "x", true, null], /* c */ b: {c: -1}}')
    return os.path.dirname(os.path.dirname(fortls.__file__))


_counter = 0


def exec_run(sched: dict, repo: str, timeout: float = RUN_TIMEOUT) -> dict:
    """fork, run the schedule in the child, return its result dict"""
    global _counter
    from dst import run

    _counter += 1
    fallback = "/dev/shm/s%06x" % ((os.getpid() * 131 + _counter) % 0xFFFFFF)
    r, w = os.pipe()
    sys.stdout.flush()
    pid = os.fork()
    if pid == 0:
        try:
            os.close(r)
            os.setpgid(0, 0)
            import resource

            resource.setrlimit(resource.RLIMIT_AS, (3 << 30, 3 << 30))
            resource.setrlimit(resource.RLIMIT_CORE, (0, 0))
            dn = os.open(os.devnull, os.O_RDWR)
            os.dup2(dn, 0)
            os.dup2(dn, 1)
            if not os.environ.get("DST_CHILD_STDERR"):
                os.dup2(dn, 2)

            def cb(res):
                data = json.dumps(res).encode()
                view = memoryview(data)
                while view:
                    n = os.write(w, view[: 1 << 16])
                    view = view[n:]
                os._exit(0)

            run.run_schedule(sched, fallback, repo, cb)
        except BaseException:
            try:
                os.write(w, json.dumps({"status": "HARNESS", "error": traceback.format_exc(),
                                        "violations": [], "fired": [], "digest": ""}).encode())
            except Exception:
                pass
        os._exit(5)
    os.close(w)
    chunks = []
    deadline = time.monotonic() + timeout
    timed_out = False
    while True:
        left = deadline - time.monotonic()
        if left <= 0:
            timed_out = True
            break
        rd, _, _ = select.select([r], [], [], min(left, 5.0))
        if rd:
            b = os.read(r, 1 << 20)
            if not b:
                break
            chunks.append(b)
    if timed_out:
        try:
            os.killpg(pid, signal.SIGKILL)
        except ProcessLookupError:
            pass
    os.close(r)
    _, status = os.waitpid(pid, 0)
    if os.path.isdir(fallback):
        shutil.rmtree(fallback, ignore_errors=True)
    data = b"".join(chunks)
    if timed_out:
        return {"status": "HANG", "violations": [], "fired": [], "digest": "",
                "error": f"no result within {timeout}s wall clock"}
    if data:
        try:
            return json.loads(data)
        except ValueError:
            pass
    if os.WIFSIGNALED(status):
        return {"status": "CRASH", "signal": os.WTERMSIG(status), "violations": [], "fired": [],
                "digest": ""}
    return {"status": "HARNESS", "error": f"child exit status {status}, {len(data)} bytes",
            "violations": [], "fired": [], "digest": ""}


def summarise(res: dict, keep=()) -> dict:
    drop = {"transcript", "final_disk", "final_dirs", "out", "events", "handled_msgs", "effects"}
    return {k: v for k, v in res.items() if k not in drop or k in keep}


def handle_task(task: dict, repo: str) -> dict:
    t = task["t"]
    if t == "ping":
        import fortls

        return {"ok": True, "hashseed": os.environ.get("PYTHONHASHSEED"), "optimize": sys.flags.optimize,
                "fortls": os.path.dirname(fortls.__file__)}
    if t == "run":
        sched = task.get("sched")
        if sched is None:
            from dst import props

            sched = props.get(task["gen"]["prop"]).gen_sched(task["gen"])
        for k, v in (task.get("override") or {}).items():
            sched[k] = v
        res = exec_run(sched, repo, task.get("timeout", RUN_TIMEOUT))
        full = task.get("full_path")
        if full:
            with open(full, "w") as f:
                json.dump({"sched": sched, "res": res}, f)
        out = summarise(res)
        import hashlib as _h

        out["sched_digest"] = _h.sha256(json.dumps(sched, sort_keys=True).encode()).hexdigest()[:16]
        if task.get("echo_sched") or out.get("violations") or out.get("status") != "done":
            # generators may consult the tree under test (e.g. its option list): the schedule that
            # was run is the one to minimise and replay, never a regenerated one
            out["sched"] = sched
        if "transcript" in res:
            import hashlib

            out["transcript_digest"] = hashlib.sha256(
                json.dumps(res["transcript"], sort_keys=True).encode()).hexdigest()
            out["transcript_len"] = len(res["transcript"])
        return out
    if t == "realpipe":
        return realpipe(task, repo)
    if t == "case":
        from dst import props

        P = props.get(task["prop"])
        case = task.get("case")
        if case is None:
            case = P.gen_case(task["gen"])

        def run_fn(sched, timeout=RUN_TIMEOUT):
            return exec_run(sched, repo, timeout)

        out = summarise(P.exec_case(case, run_fn))
        if task.get("echo_case") or any(v.get("prop") == task["prop"] for v in out.get("violations", [])):
            out["case"] = case
        import hashlib as _h

        out["sched_digest"] = _h.sha256(json.dumps(case, sort_keys=True).encode()).hexdigest()[:16]
        return out
    raise ValueError(t)


def realpipe(task, repo):
    """stub cross-check: the same schedule in the simulator and against `python -m fortls` as
    a real subprocess over real pipes (with the real multiprocessing.Pool) inside the same kind
    of sandbox; the decoded output frames must be equal."""
    import subprocess

    from dst import frames, oracles, props, sim

    sched = task.get("sched") or props.get(task["gen"]["prop"]).gen_sched(task["gen"])
    sched = dict(sched, want_out=True, faults=[], buggify=[], chunks=None, order=None, pool={},
                 strict_edits=False, release_version=None)
    if task.get("nthreads"):
        # exercise the real multiprocessing.Pool at different worker counts against SimPool
        sched["argv"] = [a for a in sched.get("argv", [])] + ["--nthreads", str(task["nthreads"])]
    sched["ops"] = [{k: v for k, v in op.items() if k != "cut"} for op in sched["ops"] if op["k"] == "msg"]

    def norm(fr):
        # directory enumeration order is real in the subprocess: compare modulo what LSP leaves unordered
        fr = oracles.strip_tb(fr)
        if "result" in fr:
            fr = dict(fr, result=oracles.normalise_result("", fr["result"]))
        if "params" in fr:
            fr = dict(fr, params=oracles.normalise_result("", fr["params"]))
        return fr

    a = exec_run(sched, repo)
    if a.get("status") != "done":
        return {"status": "HARNESS", "error": "simulated side: " + str(a.get("error")), "violations": [],
                "fired": [], "digest": ""}
    sim_frames = [norm(f) for _, f in a["out"]]
    r, w = os.pipe()
    pid = os.fork()
    if pid == 0:
        try:
            os.close(r)
            sim.enter_sandbox("/dev/shm/s%06x" % (os.getpid() % 0xFFFFFF))
            if sim.S.mode != "ns":
                os.write(w, json.dumps({"skip": "no mount namespace"}).encode())
                os._exit(0)
            world = sim.World()
            world.load_tree(sched.get("tree", {}))
            stream = b"".join(frames.encode_frame(op["m"], op.get("hdr", "cl-first"), op.get("esc", False))
                              for op in sched["ops"])
            env = dict(os.environ, PYTHONPATH=repo, PYTHONHASHSEED=os.environ.get("PYTHONHASHSEED", "0"))
            pr = subprocess.run([sys.executable, "-B", "-m", "fortls"] + list(sched.get("argv", [])),
                                input=stream, capture_output=True, cwd=sim.ROOT, env=env, timeout=100)
            rd = frames.FrameReader()
            got = rd.feed(pr.stdout)
            err = rd.finish()
            os.write(w, json.dumps({"frames": [norm(f) for f in got],
                                    "frame_error": str(err) if err else None,
                                    "rc": pr.returncode, "stderr": pr.stderr.decode("utf-8", "replace")[-300:]}).encode())
        except BaseException:
            os.write(w, json.dumps({"error": traceback.format_exc()}).encode())
        os._exit(0)
    os.close(w)
    chunks = []
    while True:
        b = os.read(r, 1 << 20)
        if not b:
            break
        chunks.append(b)
    os.close(r)
    os.waitpid(pid, 0)
    real_ = json.loads(b"".join(chunks) or b"{}")
    if "skip" in real_:
        return {"status": "done", "skipped": real_["skip"], "violations": [], "fired": [], "digest": ""}
    if "frames" not in real_:
        return {"status": "HARNESS", "error": "real side: " + str(real_), "violations": [], "fired": [],
                "digest": ""}
    equal = real_["frames"] == sim_frames
    out = {"status": "done", "equal": equal, "n": len(sim_frames), "violations": [], "fired": [],
           "digest": a.get("digest", "")}
    if not equal:
        k = next((j for j in range(min(len(sim_frames), len(real_["frames"])))
                  if sim_frames[j] != real_["frames"][j]), min(len(sim_frames), len(real_["frames"])))
        out["first_diff"] = {"index": k, "sim": str(sim_frames[k:k + 1])[:500],
                             "real": str(real_["frames"][k:k + 1])[:500], "stderr": real_.get("stderr")}
    return out


def main():
    repo = "/repo"
    if "--repo" in sys.argv:
        repo = sys.argv[sys.argv.index("--repo") + 1]
    repo = os.path.realpath(repo)
    _setup_path(repo)
    got = preimport()
    if os.path.realpath(got) != repo:
        print(json.dumps({"fatal": f"fortls imported from {got}, expected {repo}"}), flush=True)
        return 2
    out = sys.stdout
    for line in sys.stdin:
        line = line.strip()
        if not line:
            continue
        try:
            task = json.loads(line)
            if task.get("t") == "quit":
                break
            res = handle_task(task, repo)
        except BaseException:  # noqa: BLE001
            res = {"status": "HARNESS", "error": traceback.format_exc(), "violations": [],
                   "fired": [], "digest": ""}
        out.write(json.dumps(res) + "\n")
        out.flush()
    return 0


if __name__ == "__main__":
    sys.exit(main())
