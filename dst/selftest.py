"""Self-tests of the machinery (never decide a property).

selftest-determinism: every case executed several times - different worker
processes, 16 vs 4 workers, different submission order, the launcher itself
under another PYTHONHASHSEED in a fresh interpreter - must give identical
(schedule digest, event-log+output digest, step count, violation signatures).
"""
from __future__ import annotations

import hashlib
import json
import os
import subprocess
import sys

from . import farm as farm_mod
from . import props
from .props import base

ALL = ["C01", "C02", "C03", "C09", "C10", "C15", "C16", "C17", "C18", "C19", "C20"]


def built():
    out = []
    for p in ALL:
        try:
            props.get(p)
            out.append(p)
        except ModuleNotFoundError:
            pass
    return out


def fingerprint(o):
    sigs = sorted({(v["prop"], v["clause"], v["site"]) for v in o["violations"]})
    return [o.get("sched_digest", ""), o.get("digest", ""), o.get("steps", 0), o["status"],
            hashlib.sha1(json.dumps(sigs).encode()).hexdigest()[:12]]


def digests(prop_id, tier, seed, repo, n, workers, order):
    from .launch import Ctx, helper_for

    P = props.get(prop_id)
    H = helper_for(P)
    hs = getattr(P, "HASHSEEDS", base.HASHSEEDS)
    farm = farm_mod.Farm(repo, hashseeds=hs, nworkers=workers)
    ctx = Ctx(farm, prop_id, tier, seed, repo)
    idx = list(range(n))
    if order == "rev":
        idx.reverse()
    elif order == "stride":
        idx = idx[::3] + idx[1::3] + idx[2::3]
    try:
        outs = farm_mod.pmap(lambda i: H.run_case(ctx, i), idx, farm.nworkers + 2)
    finally:
        farm.stop()
        ctx.cleanup()
    res = {}
    for o in outs:
        res[str(o["i"])] = fingerprint(o)
        if o["status"] in ("HARNESS", "INVALID"):
            res[str(o["i"])].append(str(o.get("error"))[-300:])
    # generator hash-independence: regenerate locally (this interpreter's hash seed)
    if hasattr(P, "gen_sched"):
        for i in idx[: min(n, 40)]:
            g = {"prop": prop_id, "tier": tier, "seed": seed, "i": i}
            d = hashlib.sha256(json.dumps(P.gen_sched(g), sort_keys=True).encode()).hexdigest()[:16]
            if res[str(i)][0] and res[str(i)][0] != d:
                res[str(i)].append(f"LOCAL-GEN-DIFFERS {d}")
    return res


def main(a):
    if a.what == "selftest-digests":
        spec = json.loads(os.environ["DST_SELFTEST_SPEC"])
        out = {}
        for p in spec["props"]:
            out[p] = digests(p, spec["tier"], spec["seed"], a.repo, spec["n"], spec["workers"],
                             spec["order"])
        print("DIGESTS " + json.dumps(out))
        return 0
    if a.what == "selftest-determinism":
        n = a.cases or 48
        plist = built()
        rounds = []
        for hseed, workers, order in (("0", 16, "fwd"), ("4242", 4, "rev"), ("77", 16, "stride")):
            env = dict(os.environ)
            env["PYTHONHASHSEED"] = hseed
            env["DST_SELFTEST_SPEC"] = json.dumps({"props": plist, "tier": a.tier, "seed": a.seed,
                                                   "n": n, "workers": workers, "order": order})
            pr = subprocess.run([sys.executable, "-B", os.path.join(os.path.dirname(__file__), "launch.py"),
                                 "selftest-digests", "--repo", a.repo], env=env, capture_output=True,
                                text=True)
            line = [ln for ln in pr.stdout.splitlines() if ln.startswith("DIGESTS ")]
            if not line:
                print(pr.stdout[-2000:], pr.stderr[-4000:])
                print("HARNESS-ERROR: selftest round produced no digests")
                return 2
            rounds.append(json.loads(line[0][8:]))
        bad = 0
        total = 0
        for p in plist:
            for i in sorted(rounds[0][p], key=int):
                total += 1
                vals = [r[p].get(i) for r in rounds]
                if any(v != vals[0] for v in vals[1:]) or any("LOCAL-GEN-DIFFERS" in str(v) for v in vals) \
                        or vals[0][3] in ("HARNESS", "INVALID"):
                    bad += 1
                    if bad <= 10:
                        print(f"NONDETERMINISM {p} case {i}: {vals}")
        print(f"selftest-determinism: {total} cases x {len(rounds)} rounds over {plist}: "
              f"{'OK' if bad == 0 else str(bad) + ' MISMATCHES'}")
        return 0 if bad == 0 else 2
    if a.what == "selftest-realpipe":
        # stub cross-check (never decides a property): simulator vs real subprocess over pipes
        n = a.cases or 40
        farm = farm_mod.Farm(a.repo, hashseeds=(0, 1), nworkers=8)
        bad = 0
        done = 0
        skipped = 0
        try:
            tasks = []
            # workloads whose answers do not depend on the (real, uncontrolled) directory order:
            # unique unit names, no cyclic programs
            for prop in ("C16", "C02", "C03", "C17"):
                for i in range(n):
                    tasks.append((prop, i))

            def one(t):
                prop, i = t
                if prop == "C16":
                    i += 9000  # seeded sessions, not the enumerated no-initialize stream
                return t, farm.run({"t": "realpipe", "nthreads": [None, 1, 4, 16][i % 4],
                                    "gen": {"prop": prop, "tier": "quick", "seed": a.seed, "i": i}}, i % 2)

            for t, r in farm_mod.pmap(one, tasks, 10):
                if r.get("skipped"):
                    skipped += 1
                elif r.get("status") != "done":
                    bad += 1
                    print("HARNESS", t, str(r.get("error"))[-400:])
                elif not r.get("equal"):
                    bad += 1
                    print("MISMATCH", t, r.get("first_diff"))
                else:
                    done += 1
        finally:
            farm.stop()
        print(f"selftest-realpipe: {done} schedules identical in simulator and real subprocess, "
              f"{skipped} skipped, {bad} mismatches")
        return 0 if bad == 0 else 2
    print("unknown selftest")
    return 2
