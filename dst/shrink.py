"""Schedule minimisation: ddmin over operations, then faults, then arguments.
A candidate is kept iff executing it yields a violation with the same
signature (property, clause, site)."""
from __future__ import annotations

import copy
import time


def sig_of(v):
    """coarse signature used while searching/minimising"""
    return (v["prop"], v["clause"], v.get("coarse") or v["site"])


def fine_sig(v):
    return (v["prop"], v["clause"], v["site"])


def has_sig(res, sig):
    if res.get("status") in ("HARNESS", "INVALID"):
        return False
    for v in res.get("violations", []):
        if sig_of(v) == tuple(sig):
            return True
        # liveness/crash classes are re-labelled with the campaign's property by the launcher
        if v["prop"] in ("LIVENESS", "HANG", "CRASH") and len(sig) == 3 and \
                (sig[1], sig[2]) == (v["prop"].lower() + ":" + v["clause"], v.get("coarse") or v["site"]):
            return True
    return False


PROTECTED_METHODS = {"initialize"}


def _droppable(op):
    if op["k"] == "msg" and op["m"].get("method") in PROTECTED_METHODS:
        return False
    if op["k"] == "obs" and op.get("what") == "saved":
        return False  # the executor's precondition check must survive minimisation
    if op["k"] == "battery":
        return False
    return True


def _reindex(sched, keep_idx):
    """remap fault/buggify op indices after ops were dropped"""
    new_index = {old: new for new, old in enumerate(keep_idx)}
    s = copy.deepcopy(sched)
    s["ops"] = [sched["ops"][i] for i in keep_idx]
    for key in ("faults", "buggify"):
        if key in s:
            s[key] = [(f if "path" in f else dict(f, op=new_index[f["op"]])) for f in s[key]
                      if "path" in f or f["op"] in new_index]
    return s


def shrink(sched, sig, runner, budget_s=60.0, log=None):
    """runner(sched) -> result summary. Returns (minimised schedule, runs used)."""
    t0 = time.monotonic()
    runs = 0

    def ok(s):
        nonlocal runs
        if time.monotonic() - t0 > budget_s:
            return False
        runs += 1
        return has_sig(runner(s), sig)

    cur = copy.deepcopy(sched)
    # 0. cheap global simplifications
    for key, val in (("chunks", None), ("pipeline", False), ("order", None)):
        if cur.get(key) not in (None, False):
            c = copy.deepcopy(cur)
            c[key] = val
            if ok(c):
                cur = c
    # 1. ddmin over ops
    idx = list(range(len(cur["ops"])))
    n = 2
    while len(idx) >= 2 and time.monotonic() - t0 < budget_s:
        chunk = max(1, len(idx) // n)
        reduced = False
        for start in range(0, len(idx), chunk):
            part = idx[start : start + chunk]
            if not all(_droppable(cur["ops"][i]) for i in part):
                part = [i for i in part if _droppable(cur["ops"][i])]
                if not part:
                    continue
            keep = [i for i in idx if i not in set(part)]
            cand = _reindex(cur, keep)
            if ok(cand):
                cur = cand
                idx = list(range(len(cur["ops"])))
                n = max(n - 1, 2)
                reduced = True
                break
        if not reduced:
            if chunk == 1:
                break
            n = min(len(idx), n * 2)
    # 2. drop faults / buggify one by one
    for key in ("faults", "buggify"):
        i = 0
        while i < len(cur.get(key, [])):
            c = copy.deepcopy(cur)
            del c[key][i]
            if ok(c):
                cur = c
            else:
                i += 1
    # 3. drop tree files one by one (except what the schedule's oracle data is derived from)
    keep = cur.get("shrink_keep") or {}
    for p in sorted(cur.get("tree", {})):
        if p in keep.get("tree", []):
            continue
        c = copy.deepcopy(cur)
        del c["tree"][p]
        if ok(c):
            cur = c
    # 4. shrink texts (tree files and didChange texts) by halves of lines
    cur = _shrink_texts(cur, ok, t0, budget_s)
    # 5. argv
    argv = list(cur.get("argv", []))
    i = len(argv) if keep.get("argv") else 0
    while i < len(argv):
        c = copy.deepcopy(cur)
        c["argv"] = argv[:i] + argv[i + 1 :]
        if ok(c):
            cur = c
            argv = c["argv"]
        else:
            i += 1
    return cur, runs


def _shrink_texts(cur, ok, t0, budget_s):
    def try_lines(get, put):
        nonlocal cur
        text = get(cur)
        if not isinstance(text, str) or not text:
            return
        lines = text.split("\n")
        n = 2
        while len(lines) > 1 and time.monotonic() - t0 < budget_s:
            chunk = max(1, len(lines) // n)
            reduced = False
            for start in range(0, len(lines), chunk):
                cand_lines = lines[:start] + lines[start + chunk :]
                c = copy.deepcopy(cur)
                put(c, "\n".join(cand_lines))
                if ok(c):
                    cur = c
                    lines = cand_lines
                    n = max(n - 1, 2)
                    reduced = True
                    break
            if not reduced:
                if chunk == 1:
                    break
                n = min(len(lines), n * 2)

    for p in sorted(cur.get("tree", {})):
        if p in (cur.get("shrink_keep") or {}).get("tree", []):
            continue
        if isinstance(cur["tree"][p], str):
            try_lines(lambda c, p=p: c["tree"][p], lambda c, v, p=p: c["tree"].__setitem__(p, v))
    for k, op in enumerate(cur["ops"]):
        if op["k"] == "env" and op.get("do") == "write" and isinstance(op.get("data"), str):
            try_lines(lambda c, k=k: c["ops"][k]["data"],
                      lambda c, v, k=k: c["ops"][k].__setitem__("data", v))
    return cur
