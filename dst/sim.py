"""The simulator core: one *run* of the real LangServer under a schedule.

Everything here executes inside a freshly forked child (see worker.py).
Control flow is inversion-of-control: the real ``LangServer.run`` loop is the
main loop, and the simulator gets control whenever the server
  (a) asks its (simulated) stdin for bytes        -> SimRaw.readinto
  (b) touches the disk through a seam             -> Seams.*
  (c) hands work to the (simulated) process pool  -> SimPool
  (d) ticks the step clock past a budget          -> StepClock
No threads, no real time, no randomness: a schedule is a plain JSON value and
executing it draws nothing from any PRNG.
"""
from __future__ import annotations

import base64
import builtins
import ctypes
import errno
import hashlib
import io
import json
import logging
import os
import pickle
import random
import sys
import traceback

from . import frames, model

CANON = "/dev/shm/simroot"  # canonical base: what schedules and transcripts mention
ROOT = CANON + "/ws"  # the workspace root the server is pointed at

STEP_BUDGET_DEFAULT = 20_000_000


# ----------------------------------------------------------------------------
# global run state (one per child process)


class _State:
    def __init__(self):
        self.sim = 0  # >0 while simulator code runs (clock stopped, audit off)
        self.steps = 0
        self.op_start_steps = 0
        self.budget = STEP_BUDGET_DEFAULT
        self.cur_op = -1  # index into schedule ops of the message being handled
        self.base = CANON  # actual base directory (== CANON in namespace mode)
        self.mode = "ns"
        self.events = []  # the event log (determinism digest is taken over it)
        self.violations = []
        self.fired = []  # faults that actually fired
        self.armed = 0
        self.audit = []  # suspicious audit events while server code ran
        self.logs = []  # captured log records >= WARNING
        self.abort_cb = None
        self.in_pool_worker = False


S = _State()


def ev(*a):
    S.events.append(list(a))


class RunAbort(BaseException):
    """Raised inside simulator code to unwind out of the server."""


def violation(prop: str, clause: str, site: str, detail: str = "", op=None, coarse=None):
    v = {"prop": prop, "clause": clause, "site": site, "detail": detail[:2000],
         "op": S.cur_op if op is None else op}
    if coarse is not None:
        v["coarse"] = coarse
    S.violations.append(v)


# ----------------------------------------------------------------------------
# sandbox (private mount namespace with a tmpfs at a fixed path)

_libc = None


def enter_sandbox(fallback_base: str):
    """Give this process a private, empty directory tree at CANON.
    Falls back to a uniquely named directory of the same length."""
    global _libc
    try:
        os.unshare(os.CLONE_NEWNS)
        _libc = ctypes.CDLL(None, use_errno=True)
        MS_REC, MS_PRIVATE = 0x4000, 1 << 18
        if _libc.mount(b"none", b"/", None, MS_REC | MS_PRIVATE, None) != 0:
            raise OSError(ctypes.get_errno(), "make-rprivate")
        # The tmpfs goes over /dev/shm itself, not just over CANON: the server globs absolute
        # paths component by component (pathlib scans "/", "/dev", "/dev/shm", ...), and the host's
        # /dev/shm changes while campaigns run (other runs, semaphores) - a determinism breaker
        # that showed up as +-1..3 loop iterations in pathlib._select_from.
        if _libc.mount(b"tmpfs", b"/dev/shm", b"tmpfs", 0, b"size=512m") != 0:
            raise OSError(ctypes.get_errno(), "mount tmpfs")
        os.makedirs(CANON, exist_ok=True)
        S.base, S.mode = CANON, "ns"
    except Exception:
        os.makedirs(fallback_base, exist_ok=True)
        S.base, S.mode = fallback_base, "dir"
    os.makedirs(real(ROOT), exist_ok=True)
    return S.base


def real(p: str) -> str:
    """canonical path -> actual path"""
    if S.base != CANON and p.startswith(CANON):
        return S.base + p[len(CANON):]
    return p


def canon(x):
    """actual -> canonical, deep over JSON-like values (strings only)."""
    if S.base == CANON:
        return x
    return _deep_replace(x, S.base, CANON)


def realise(x):
    if S.base == CANON:
        return x
    return _deep_replace(x, CANON, S.base)


def _deep_replace(x, a, b):
    if isinstance(x, str):
        return x.replace(a, b) if a in x else x
    if isinstance(x, list):
        return [_deep_replace(v, a, b) for v in x]
    if isinstance(x, dict):
        return {_deep_replace(k, a, b): _deep_replace(v, a, b) for k, v in x.items()}
    return x


# ----------------------------------------------------------------------------
# data helpers


def enc_bytes(b: bytes):
    """bytes -> JSON value (str when it is clean UTF-8 text, else {'b64':..})"""
    try:
        s = b.decode("utf-8")
        if s.encode("utf-8") == b and "\x00" not in s:
            return s
    except UnicodeDecodeError:
        pass
    return {"b64": base64.b64encode(b).decode("ascii")}


def dec_bytes(v) -> bytes:
    if isinstance(v, str):
        return v.encode("utf-8", "replace")  # a file cannot hold half a surrogate pair
    return base64.b64decode(v["b64"])


# ----------------------------------------------------------------------------
# the world: a disk model mirrored into the sandbox directory


FS_EPOCH_NS = 1_700_000_000 * 10**9


class World:
    def __init__(self, fsclock=None):
        self.files: dict[str, bytes] = {}  # canonical path -> content
        self.dirs: set[str] = {ROOT}
        self.journal: list[dict] = []
        self.links: dict[str, str] = {}
        self._open = builtins.open
        # The file system's clock belongs to the simulator: every file written by the environment
        # gets its time stamp from here, never from the host.  "fine": every write is 1 ms later
        # than the previous one; "coarse": the stamp advances by 1 s on every third write (file
        # systems with one- or two-second stamps, fast successive writes); "frozen": all stamps
        # are equal (restored stamps: cp -p, rsync -t, build systems, virtual clocks)
        self.fsclock = fsclock or "fine"
        self.fs_now = FS_EPOCH_NS
        self.fs_writes = 0

    def _stamp(self, rp: str):
        self.fs_writes += 1
        if self.fsclock == "fine":
            self.fs_now += 1_000_000
        elif self.fsclock == "coarse" and self.fs_writes % 3 == 0:
            self.fs_now += 10**9
        try:
            os.utime(rp, ns=(self.fs_now, self.fs_now))
        except OSError:
            pass

    def mkdir(self, path: str):
        parts = path.split("/")
        for i in range(2, len(parts) + 1):
            d = "/".join(parts[:i])
            if d.startswith(CANON) and len(d) > len(CANON):
                self.dirs.add(d)
        os.makedirs(real(path), exist_ok=True)

    def write(self, path: str, data: bytes):
        d = os.path.dirname(path)
        if d not in self.dirs:
            self.mkdir(d)
        self.files[path] = data
        with self._open(real(path), "wb") as f:
            f.write(data)
        self._stamp(real(path))

    def delete(self, path: str):
        if path in self.files:
            del self.files[path]
            os.unlink(real(path))

    def rmdir(self, path: str):
        if path in self.dirs and not any(p.startswith(path + "/") for p in self.files) and not any(
            d.startswith(path + "/") for d in self.dirs
        ):
            self.dirs.discard(path)
            os.rmdir(real(path))

    def apply_model_only(self, op: dict):
        """mirror an operation that another process (a pool worker) already applied to the disk"""
        do, path = op["do"], op["path"]
        if do == "write":
            self.files[path] = dec_bytes(op["data"])
            d = os.path.dirname(path)
            while d.startswith(CANON) and len(d) > len(CANON):
                self.dirs.add(d)
                d = os.path.dirname(d)
        elif do == "delete":
            self.files.pop(path, None)
        elif do == "mkdir":
            self.dirs.add(path)
        elif do == "rmdir":
            self.dirs.discard(path)

    def apply(self, op: dict):
        self.journal.append(op)
        do = op["do"]
        path = op["path"]
        if do == "write":
            self.write(path, dec_bytes(op["data"]))
        elif do == "delete":
            self.delete(path)
        elif do == "mkdir":
            self.mkdir(path)
        elif do == "rmdir":
            self.rmdir(path)
        else:
            raise ValueError(do)

    def load_tree(self, tree: dict):
        for p in sorted(tree):
            v = tree[p]
            if p.endswith("/"):
                self.mkdir(p.rstrip("/"))
            elif isinstance(v, dict) and "symlink" in v:
                d = os.path.dirname(p)
                if d not in self.dirs:
                    self.mkdir(d)
                os.symlink(v["symlink"], real(p))
                self.links[p] = v["symlink"]
            else:
                self.write(p, dec_bytes(v))

    def snapshot_real(self) -> dict[str, bytes]:
        """What is really in the sandbox directory now."""
        out = {}
        base = real(CANON)
        for r, ds, fs in _orig["walk"](base):
            for f in fs:
                p = os.path.join(r, f)
                if os.path.islink(p):
                    out[CANON + p[len(base):]] = b"->" + os.readlink(p).encode()
                    continue
                with self._open(p, "rb") as fh:
                    out[CANON + p[len(base):]] = fh.read()
            for d in ds:
                out[CANON + os.path.join(r, d)[len(base):] + "/"] = b""
        return out


# ----------------------------------------------------------------------------
# fault plan


_the_world = None


class FaultPlan:
    """Faults are addressed as (op index, seam, ordinal of the call to that
    seam while that op is being handled)."""

    def __init__(self, faults: list[dict]):
        self.by_key = {}
        self.by_path = {}  # persistent faults addressed by path: the file is unreadable throughout
        for f in faults:
            if "path" in f:
                self.by_path[(f["seam"], f["path"])] = f
                continue
            self.by_key[(f["op"], f["seam"], f["nth"])] = f
        S.armed = len(faults)
        self.count = {}

    def hit(self, seam: str, path: str):
        key = (S.cur_op, seam)
        n = self.count.get(key, 0)
        self.count[key] = n + 1
        fp = self.by_path.get((seam, canon(str(path)))) if self.by_path else None
        if fp is not None:
            S.fired.append({"kind": fp["kind"], "seam": seam, "op": S.cur_op, "nth": n, "path": canon(str(path))})
            ev("fault", fp["kind"], seam, S.cur_op, "path", canon(str(path)))
            return fp
        f = self.by_key.get((S.cur_op, seam, n))
        if f is not None and f.get("_done"):
            f = None
        if f is not None:
            f["_done"] = True
            S.fired.append({"kind": f["kind"], "seam": seam, "op": S.cur_op, "nth": n,
                            "path": canon(path)})
            ev("fault", f["kind"], seam, S.cur_op, n, canon(path))
        return f


def late_races(plan, world, upto_op):
    """environment operations scheduled as a race inside an operation that the handler never
    reached (it made fewer disk calls): they land right after that operation instead"""
    n = 0
    for key in sorted(plan.by_key):
        f = plan.by_key[key]
        if f["kind"] == "race" and not f.get("_done") and f["op"] <= upto_op:
            f["_done"] = True
            for envop in f["env"]:
                world.apply(envop)
            ev("fault", "race-late", f["seam"], f["op"], f["nth"])
            n += 1
    return n


_orig = {}
_ERRNO = {"enoent": errno.ENOENT, "eacces": errno.EACCES, "eio": errno.EIO,
          "emfile": errno.EMFILE, "eisdir": errno.EISDIR}


class _FailingReader(io.RawIOBase):
    def readable(self):
        return True

    def readinto(self, b):
        raise OSError(errno.EIO, "Input/output error (injected)")


class Seams:
    def __init__(self, world: World, plan: FaultPlan, order_seed):
        self.world = world
        self.plan = plan
        self.order_seed = order_seed
        self.calls = {"open": 0, "listdir": 0, "walk": 0, "isfile": 0, "isdir": 0}

    def mine(self, p) -> bool:
        try:
            p = os.fspath(p)
        except TypeError:
            return False
        if isinstance(p, bytes):
            return False
        return p.startswith(S.base + "/") or p == S.base

    def _race(self, f):
        """apply an environment operation that lands inside the handler"""
        if f is not None and f["kind"] == "race":
            for envop in f["env"]:
                self.world.apply(envop)
            return True
        return False

    # --- builtins.open
    def open(self, file, mode="r", *a, **kw):
        if not S.sim and isinstance(file, int) and file in STDIO:
            return _stdio_open(file, mode, *a, **kw)
        if S.sim or not self.mine(file):
            return _orig["open"](file, mode, *a, **kw)
        S.sim += 1
        try:
            self.calls["open"] += 1
            f = self.plan.hit("open", file)
            self._race(f)
        finally:
            S.sim -= 1
        if f is not None and "r" in mode and "+" not in mode:
            k = f["kind"]
            if k in _ERRNO:
                raise OSError(_ERRNO[k], os.strerror(_ERRNO[k]) + " (injected)", str(file))
            if k in ("torn", "eio-read"):
                S.sim += 1
                try:
                    if k == "torn":
                        with _orig["open"](file, "rb") as fh:
                            data = fh.read()
                        cut = f["cut"]
                        if isinstance(cut, float):
                            cut = int(len(data) * cut)
                        raw = io.BytesIO(data[: max(0, min(len(data), cut))])
                    else:
                        raw = io.BufferedReader(_FailingReader())
                finally:
                    S.sim -= 1
                if "b" in mode:
                    return raw
                return io.TextIOWrapper(
                    raw, encoding=kw.get("encoding") or "utf-8", errors=kw.get("errors"),
                    newline=kw.get("newline"),
                )
        return _orig["open"](file, mode, *a, **kw)

    # --- directory enumeration
    def _permute(self, path: str, names: list[str]) -> list[str]:
        names = sorted(names)
        if self.order_seed is None:
            return names
        if self.order_seed == "rev":
            return names[::-1]
        if isinstance(self.order_seed, dict):
            import math

            k = self.order_seed.get("perm", 0) % (math.factorial(len(names)) if names else 1)
            pool, out = list(names), []
            while pool:
                f = math.factorial(len(pool) - 1)
                out.append(pool.pop(k // f))
                k %= f
            return out
        random.Random(f"{self.order_seed}:{canon(path)}").shuffle(names)
        return names

    def listdir(self, path="."):
        if S.sim or not self.mine(path):
            return _orig["listdir"](path)
        S.sim += 1
        try:
            self.calls["listdir"] += 1
            f = self.plan.hit("listdir", path)
            self._race(f)
            if f is not None and f["kind"] in _ERRNO:
                raise OSError(_ERRNO[f["kind"]], os.strerror(_ERRNO[f["kind"]]) + " (injected)",
                              str(path))
            return self._permute(str(path), _orig["listdir"](path))
        finally:
            S.sim -= 1

    def walk(self, top, topdown=True, onerror=None, followlinks=False):
        if S.sim or not self.mine(top):
            yield from _orig["walk"](top, topdown, onerror, followlinks)
            return
        self.calls["walk"] += 1
        stack = [str(top)]
        while stack:
            cur = stack.pop()
            S.sim += 1
            try:
                f = self.plan.hit("walk", cur)
                self._race(f)
                try:
                    names = self._permute(cur, _orig["listdir"](cur))
                except OSError:
                    continue
                dirs, files = [], []
                for n in names:
                    (dirs if _orig["isdir"](os.path.join(cur, n)) else files).append(n)
            finally:
                S.sim -= 1
            yield cur, dirs, files
            for d in reversed(dirs):
                stack.append(os.path.join(cur, d))

    def isfile(self, path):
        if S.sim or not self.mine(path):
            return _orig["isfile"](path)
        S.sim += 1
        try:
            self.calls["isfile"] += 1
            f = self.plan.hit("isfile", path)
            self._race(f)
        finally:
            S.sim -= 1
        return _orig["isfile"](path)

    def isdir(self, path):
        if S.sim or not self.mine(path):
            return _orig["isdir"](path)
        S.sim += 1
        try:
            self.calls["isdir"] += 1
            f = self.plan.hit("isdir", path)
            self._race(f)
        finally:
            S.sim -= 1
        return _orig["isdir"](path)

    def install(self):
        _orig.update(open=builtins.open, listdir=os.listdir, walk=os.walk,
                     isfile=os.path.isfile, isdir=os.path.isdir)
        builtins.open = self.open
        io.open = self.open
        os.read = _os_read
        os.write = _os_write
        global _orig_select, _orig_sleep
        import select as _select
        import time as _time

        if _orig_select is None:
            _orig_select, _orig_sleep = _select.select, _time.sleep
        _select.select = sim_select
        _time.sleep = sim_sleep
        os.listdir = self.listdir
        os.walk = self.walk
        os.path.isfile = self.isfile
        os.path.isdir = self.isdir


# ----------------------------------------------------------------------------
# step clock


_HIST = {} if os.environ.get("DST_STEP_HIST") else None  # diagnostic: steps per code object


class StepClock:
    TOOL = 4

    def __init__(self):
        self.mon = sys.monitoring

    def start(self):
        mon = self.mon
        mon.use_tool_id(self.TOOL, "dst-step-clock")
        E = mon.events
        mon.register_callback(self.TOOL, E.PY_START, self._start)
        mon.register_callback(self.TOOL, E.JUMP, self._jump)
        mon.set_events(self.TOOL, E.PY_START | E.JUMP)

    @staticmethod
    def _start(code, off):
        if S.sim:
            return
        if _HIST is not None:
            k = (code.co_filename.rsplit("/", 1)[-1], code.co_name, "S")
            _HIST[k] = _HIST.get(k, 0) + 1
        S.steps += 1
        if S.steps - S.op_start_steps > S.budget:
            _budget_exceeded()

    @staticmethod
    def _jump(code, off, dest):
        if S.sim:
            return
        if _HIST is not None:
            k = (code.co_filename.rsplit("/", 1)[-1], code.co_name, "J")
            _HIST[k] = _HIST.get(k, 0) + 1
        S.steps += 1
        if S.steps - S.op_start_steps > S.budget:
            _budget_exceeded()


def _budget_exceeded():
    S.sim += 1
    stack = "".join(traceback.format_stack(limit=12))
    site = _chain_from_stack(traceback.extract_stack())
    violation("LIVENESS", "step-budget", site,
              f"operation {S.cur_op} used more than {S.budget} steps\n{stack}")
    ev("liveness", S.cur_op)
    if S.abort_cb:
        S.abort_cb("LIVENESS")
    os._exit(3)


def _site_from_stack(frames_):
    """innermost frame inside fortls/: 'func: source line text'"""
    for fr in reversed(frames_):
        fn = fr.filename.replace("\\", "/")
        if "/fortls/" in fn and "/dst/" not in fn:
            return f"{fr.name}: {(fr.line or '').strip()}"
    return "?"


def _chain_from_stack(frames_):
    """names of the first fortls frames below the dispatcher: stable site of a runaway loop"""
    names = []
    for fr in frames_:
        fn = fr.filename.replace("\\", "/")
        if "/fortls/" in fn and "/dst/" not in fn:
            if fr.name in ("run", "handle", "main"):
                continue
            names.append(fr.name)
    return ">".join(names[:3]) or "?"


def site_from_traceback_text(tb: str) -> str:
    """Same, from a formatted traceback string (error.data.traceback / logs)."""
    lines = tb.splitlines()
    site = None
    exc = ""
    for i, ln in enumerate(lines):
        s = ln.strip()
        if s.startswith('File "') and "/fortls/" in s and "/dst/" not in s:
            func = s.rsplit(" in ", 1)[-1] if " in " in s else "?"
            src = lines[i + 1].strip() if i + 1 < len(lines) else ""
            site = f"{func}: {src}"
    for ln in reversed(lines):
        if ln and not ln.startswith(" "):
            exc = ln.split(":", 1)[0].strip()
            break
    return f"{exc} @ {site or '?'}"


# ----------------------------------------------------------------------------
# audit monitor (C17)

_WRITE_FLAGS = os.O_WRONLY | os.O_RDWR | os.O_CREAT | os.O_TRUNC | os.O_APPEND
_MUTATORS = {
    "os.remove", "os.rename", "os.mkdir", "os.rmdir", "os.truncate", "os.chmod", "os.chown",
    "os.symlink", "os.link", "os.utime", "shutil.rmtree", "shutil.move", "shutil.copyfile",
    "shutil.copytree", "os.removexattr", "os.setxattr", "tempfile.mkstemp", "tempfile.mkdtemp",
}
_EXECUTORS = {
    "os.system", "subprocess.Popen", "os.exec", "os.posix_spawn", "os.spawn", "os.startfile",
    "ctypes.dlopen", "socket.connect", "socket.bind", "pty.spawn", "os.fork", "os.forkpty",
    "urllib.Request", "ftplib.connect", "http.client.connect", "smtplib.connect",
    "webbrowser.open", "os.kill", "os.putenv",
}
_code_prefixes = ()
_stdlib_prefix = "\0"


def _audit_hook(event, args):
    if S.sim:
        return
    try:
        if event == "exec":
            code = args[0]
            fn = getattr(code, "co_filename", "?")
            if not (isinstance(fn, str) and fn.startswith(_code_prefixes) and fn.endswith(".py")):
                S.audit.append(["exec", fn, getattr(code, "co_name", "?"),
                                _server_site()])
        elif event == "compile":
            src, fn = args[0], args[1]
            # compile() reached from the standard library itself (traceback formatting parses
            # a line of *program source* with ast.parse to place carets) is not evaluation of
            # file content; an exec of the product would still raise the event above.
            caller = sys._getframe(1).f_code.co_filename
            if caller.startswith(_stdlib_prefix) and "site-packages" not in caller:
                return
            if src is not None and not (isinstance(fn, str) and fn.startswith(_code_prefixes)):
                if isinstance(src, bytes):
                    src = src.decode("utf-8", "replace")
                S.audit.append(["compile", str(fn), str(src)[:200], _server_site()])
        elif event == "open":
            path, mode, flags = args[0], args[1], args[2]
            w = False
            if isinstance(mode, str) and any(c in mode for c in "wax+"):
                w = True
            elif mode is None and isinstance(flags, int) and flags & _WRITE_FLAGS:
                w = True
            if w:
                S.audit.append(["open-write", canon(os.fspath(path)) if not isinstance(path, int)
                                else f"fd{path}", str(mode), _server_site()])
        elif event in _MUTATORS:
            S.audit.append([event, canon(str(args[0])) if args else "", "", _server_site()])
        elif event in _EXECUTORS:
            S.audit.append([event, str(args[0])[:200] if args else "", "", _server_site()])
    except Exception as e:  # never let the monitor disturb the run
        S.audit.append(["monitor-error", repr(e), "", ""])


def _server_site():
    S.sim += 1
    try:
        return _site_from_stack(traceback.extract_stack())
    finally:
        S.sim -= 1


def install_audit(repo: str):
    global _code_prefixes, _stdlib_prefix
    import sysconfig

    _stdlib_prefix = sysconfig.get_paths()["stdlib"] + "/"

    _code_prefixes = tuple(
        {sysconfig.get_paths()["stdlib"], sysconfig.get_paths()["purelib"], sys.prefix,
         sys.base_prefix, os.path.realpath(repo) + "/", "<frozen"}
    )
    sys.addaudithook(_audit_hook)


# ----------------------------------------------------------------------------
# log capture


class _Capture(logging.Handler):
    def emit(self, record):
        S.sim += 1
        try:
            msg = record.getMessage()
            tb = ""
            if record.exc_info and record.exc_info[0] is not None:
                tb = "".join(traceback.format_exception(*record.exc_info))
            S.logs.append({"level": record.levelname, "msg": canon(msg)[:500], "tb": tb,
                           "op": S.cur_op})
        except Exception:
            pass
        finally:
            S.sim -= 1


# ----------------------------------------------------------------------------
# simulated process pool


class _SimResult:
    def __init__(self):
        self.ok = None
        self.value = None

    def get(self, timeout=None):
        if self.ok:
            return self.value
        raise self.value

    def ready(self):
        return True

    def successful(self):
        return bool(self.ok)


class SimPool:
    """Stand-in for multiprocessing.Pool as fortls uses it (apply_async, close,
    join, AsyncResult.get).  Tasks really run in forked worker processes and
    arguments/results really cross the boundary through pickle; the only thing
    simulated is *which* worker gets which task (the schedule decides)."""

    plan: dict = {}  # set per run: {"assign": [...], "exc": {task_index: "ExcName"}}
    seen_processes = []

    def __init__(self, processes=None, *a, **kw):
        S.sim += 1
        try:
            self.n = processes
            SimPool.seen_processes.append(processes)
            ev("pool", "new", processes)
            self.tasks = []
            self.results = []
        finally:
            S.sim -= 1
        if processes is not None and processes < 1:
            raise ValueError("Number of processes must be at least 1")

    def apply_async(self, func, args=(), kwds=None):
        S.sim += 1
        try:
            blob = pickle.dumps((func, args, kwds or {}))
            self.tasks.append(blob)
            r = _SimResult()
            self.results.append(r)
            return r
        finally:
            S.sim -= 1

    def close(self):
        pass

    def terminate(self):
        pass

    def __enter__(self):
        return self

    def __exit__(self, *a):
        return False

    def join(self):
        S.sim += 1
        try:
            self._run_all()
        finally:
            S.sim -= 1

    def _run_all(self):
        ntask = len(self.tasks)
        nproc = self.n or (os.cpu_count() or 1)
        assign = list(self.plan.get("assign") or [])
        # default assignment: round robin; the schedule's list is cycled
        owner = [(assign[i % len(assign)] if assign else i) % nproc for i in range(ntask)]
        exc_plan = {int(k): v for k, v in (self.plan.get("exc") or {}).items()}
        ev("pool", "run", ntask, nproc, owner)
        for w in sorted(set(owner)):  # (not range(nproc): the option may ask for 10**9 workers)
            mine = [i for i in range(ntask) if owner[i] == w]
            if not mine:
                continue
            r, wfd = os.pipe()
            pid = os.fork()
            if pid == 0:
                os.close(r)
                self._worker(w, mine, exc_plan, wfd)
                os._exit(0)
            os.close(wfd)
            chunks = []
            while True:
                b = os.read(r, 1 << 20)
                if not b:
                    break
                chunks.append(b)
            os.close(r)
            _, status = os.waitpid(pid, 0)
            data = b"".join(chunks)
            try:
                payload = pickle.loads(data)
            except Exception as e:
                violation("CRASH", "pool-worker", f"worker {w} died status={status}",
                          f"{e!r}; {len(data)} bytes received")
                for i in mine:
                    self.results[i].ok = False
                    self.results[i].value = RuntimeError("pool worker died")
                continue
            for i, ok, blob in payload["results"]:
                try:
                    val = pickle.loads(blob)
                except Exception as e:  # noqa: BLE001
                    ok, val = False, e
                self.results[i].ok = ok
                self.results[i].value = val
            for envop in payload.get("journal", []):
                if _the_world is not None:
                    _the_world.apply_model_only(envop)
            S.fired.extend(payload["fired"])
            S.audit.extend(payload["audit"])
            S.logs.extend(payload["logs"])
            S.violations.extend(payload["violations"])
            S.pool_steps = getattr(S, "pool_steps", 0) + payload["steps"]
            if payload.get("abort"):
                if S.abort_cb:
                    S.abort_cb(payload["abort"])
                os._exit(3)

    def _worker(self, w, mine, exc_plan, wfd):
        from multiprocessing.pool import MaybeEncodingError

        S.in_pool_worker = True
        S.fired, S.audit, S.logs, S.violations = [], [], [], []
        steps0 = S.steps
        out = []

        j0 = len(_the_world.journal) if _the_world is not None else 0

        def flush(abort=None):
            payload = {"journal": _the_world.journal[j0:] if _the_world is not None else [],
                       "results": out, "fired": S.fired, "audit": S.audit, "logs": S.logs,
                       "violations": S.violations, "steps": S.steps - steps0, "abort": abort}
            with os.fdopen(wfd, "wb") as f:
                f.write(pickle.dumps(payload))

        S.abort_cb = lambda kind: flush(kind)
        for i in mine:
            S.op_start_steps = S.steps
            try:
                func, args, kwds = pickle.loads(self.tasks[i])
                if i in exc_plan:
                    S.fired.append({"kind": "pool-exc", "seam": "pool", "op": S.cur_op, "nth": i,
                                    "path": exc_plan[i]})
                    raise _exc_by_name(exc_plan[i])("injected in pool worker")
                S.sim -= 1
                try:
                    val = func(*args, **kwds)
                finally:
                    S.sim += 1
                ok = True
            except Exception as e:  # noqa: BLE001
                ok, val = False, e
            try:
                S.sim -= 1
                try:
                    blob = pickle.dumps(val)
                finally:
                    S.sim += 1
            except Exception as e:  # noqa: BLE001
                ok = False
                blob = pickle.dumps(MaybeEncodingError(e, repr(val)[:200]))
            out.append((i, ok, blob))
        flush()


def _exc_by_name(name: str):
    if name.endswith("0"):
        # the same exception class raised without any message (str(e) == "")
        cls = _exc_by_name(name[:-1])
        return lambda msg: (cls("") if cls is not KeyError else KeyError())
    return {
        "OSError": OSError, "MemoryError": MemoryError, "KeyError": KeyError,
        "RecursionError": RecursionError, "ValueError": ValueError, "IndexError": IndexError,
        "AttributeError": AttributeError, "TypeError": TypeError,
        "UnicodeDecodeError": lambda m: UnicodeDecodeError("utf-8", b"\xff", 0, 1, m),
        "RuntimeError": RuntimeError,
    }[name]


# ----------------------------------------------------------------------------
# byte pipes


# ----------------------------------------------------------------------------
# readiness and time: select()/poll() on the simulated stdin and sleeping are answered by the
# simulator's model of the client and its virtual clock (no real waiting ever happens)

VCLOCK = {"now": 0.0, "idle": 0.0}
IDLE_LIMIT_S = 120.0  # simulated seconds a server may idle-wait while the client waits for an answer
_orig_select = None
_orig_sleep = None


def _is_stdin(x):
    try:
        fd = x if isinstance(x, int) else x.fileno()
    except Exception:
        return False
    return fd == 0 and 0 in STDIO


def _idle_wait(seconds, what):
    VCLOCK["now"] += seconds
    VCLOCK["idle"] += seconds
    ev("vwait", what, seconds)
    if VCLOCK["idle"] > IDLE_LIMIT_S:
        import traceback as _tb

        violation("LIVENESS", "idle-wait", _site_from_stack(_tb.extract_stack()),
                  f"the server waited {VCLOCK['idle']:.0f} simulated seconds ({what}) while a delivered request "
                  "was unanswered and the client was waiting for the answer")
        violation("C16", "in-lost", "client->server decoding: a delivered message stays undecoded while the server "
                  "waits for more input", f"{what}; the client has written the message completely and waits for "
                  "its answer")
        ev("liveness", "idle")
        if S.abort_cb:
            S.abort_cb("LIVENESS")
        os._exit(5)


def sim_select(rlist, wlist, xlist, timeout=None):
    if S.sim or not any(_is_stdin(x) for x in rlist):
        return _orig_select(rlist, wlist, xlist, timeout)
    S.sim += 1
    try:
        drv = getattr(S, "driver", None)
        ready = drv is None or drv.client_would_write()
        if ready:
            return [x for x in rlist if _is_stdin(x)], [], []
        _idle_wait(30.0 if timeout is None else max(float(timeout), 0.001),
                   "select() on stdin" + ("" if timeout is not None else " without timeout"))
        return [], [], []
    finally:
        S.sim -= 1


def sim_sleep(seconds):
    if S.sim:
        return _orig_sleep(seconds)
    S.sim += 1
    try:
        drv = getattr(S, "driver", None)
        if drv is not None and not drv.client_would_write():
            _idle_wait(float(seconds), "sleep()")
        else:
            VCLOCK["now"] += float(seconds)
    finally:
        S.sim -= 1


# The process's standard streams as the server sees them: whichever way fortls.main() gets at
# them (sys.stdin.buffer, .buffer.raw, open(fd)/os.fdopen(fd), os.read) it reaches the simulated
# stream, with the buffering it asked for.
STDIO = {}  # fd -> SimRaw (0) / SimWriter (1)


def _stdio_open(fd, mode="r", buffering=-1, encoding=None, errors=None, newline=None, closefd=True,
                opener=None):
    obj = STDIO[fd]
    if fd == 0:
        if buffering == 0:
            return obj
        raw = io.BufferedReader(obj, buffer_size=buffering if buffering > 1 else io.DEFAULT_BUFFER_SIZE)
        if "b" in mode:
            return raw
        return io.TextIOWrapper(raw, encoding=encoding or "utf-8", errors=errors, newline=newline)
    if "b" in mode:
        return obj
    return SimStdout(obj)


def _os_read(fd, n):
    if not S.sim and fd in STDIO and fd == 0:
        return STDIO[0].read(n) or b""
    return _orig_os_read(fd, n)


def _os_write(fd, data):
    if not S.sim and fd in STDIO and fd == 1:
        return STDIO[1].write(data)
    return _orig_os_write(fd, data)


_orig_os_read = os.read
_orig_os_write = os.write


class SimStdin:
    """sys.stdin of the simulated process (text layer over the simulated byte stream)"""
    encoding = "utf-8"

    def __init__(self, raw, bufsize):
        self.buffer = io.BufferedReader(raw, buffer_size=bufsize)

    def fileno(self):
        return 0

    def isatty(self):
        return False

    def read(self, n=-1):
        return self.buffer.read(n).decode("utf-8", "replace")

    def readline(self):
        return self.buffer.readline().decode("utf-8", "replace")

    def close(self):
        pass


class SimStdout:
    """sys.stdout of the simulated process: text written to it (a stray print) lands in the
    server->client byte stream exactly as it would on the real pipe"""
    encoding = "utf-8"

    def __init__(self, writer):
        self.buffer = writer

    def fileno(self):
        return 1

    def isatty(self):
        return False

    def write(self, text):
        self.buffer.write(text.encode("utf-8"))
        return len(text)

    def flush(self):
        pass

    def close(self):
        pass


class SimRaw(io.RawIOBase):
    def __init__(self, driver):
        super().__init__()
        self.driver = driver

    def fileno(self):
        return 0

    def readable(self):
        return True

    def readinto(self, b):
        S.sim += 1
        try:
            data = self.driver.next_bytes(len(b))
        except RunAbort:
            raise
        except BaseException:
            S.harness_error = traceback.format_exc()
            if S.abort_cb:
                S.abort_cb("HARNESS")
            os._exit(4)
        finally:
            S.sim -= 1
        n = len(data)
        b[:n] = data
        return n


class SimWriter:
    def __init__(self):
        self.writes = []  # (op index, bytes)
        self.fail_plan = None

    def write(self, data: bytes):
        S.sim += 1
        try:
            self.writes.append((S.cur_op, bytes(data)))
        finally:
            S.sim -= 1
        return len(data)

    def flush(self):
        pass


# ----------------------------------------------------------------------------
# buggify: seeded exceptions inside handlers, installed from outside

def _buggify_targets():
    import fortls.langserver as ls
    import fortls.parsers.internal.ast as ast_
    import fortls.parsers.internal.parser as pr
    import fortls.parsers.internal.scope as sc
    import fortls.parsers.internal.utilities as ut
    import fortls.parsers.internal.variable as va

    return {
        "FortranFile.get_code_line": (pr.FortranFile, "get_code_line"),
        "FortranFile.parse": (pr.FortranFile, "parse"),
        "FortranFile.load_from_disk": (pr.FortranFile, "load_from_disk"),
        "FortranFile.apply_change": (pr.FortranFile, "apply_change"),
        "FortranFile.check_file": (pr.FortranFile, "check_file"),
        "FortranFile.preprocess": (pr.FortranFile, "preprocess"),
        "FortranAST.resolve_links": (ast_.FortranAST, "resolve_links"),
        "FortranAST.resolve_includes": (ast_.FortranAST, "resolve_includes"),
        "FortranAST.get_inner_scope": (ast_.FortranAST, "get_inner_scope"),
        "FortranAST.get_scopes": (ast_.FortranAST, "get_scopes"),
        "LangServer.get_definition": (ls.LangServer, "get_definition"),
        "LangServer.get_all_references": (ls.LangServer, "get_all_references"),
        "LangServer.update_workspace_file": (ls.LangServer, "update_workspace_file"),
        "LangServer.get_diagnostics": (ls.LangServer, "get_diagnostics"),
        "LangServer._create_ref_link": (ls.LangServer, "_create_ref_link"),
        "LangServer._get_source_files": (ls.LangServer, "_get_source_files"),
        "LangServer._load_intrinsics": (ls.LangServer, "_load_intrinsics"),
        "langserver.find_in_scope": (ls, "find_in_scope"),
        "langserver.find_in_workspace": (ls, "find_in_workspace"),
        "langserver.get_use_tree": (ls, "get_use_tree"),
        "langserver.climb_type_tree": (ls, "climb_type_tree"),
        "langserver.get_line_prefix": (ls, "get_line_prefix"),
        "langserver.get_var_stack": (ls, "get_var_stack"),
        "langserver.path_from_uri": (ls, "path_from_uri"),
        "langserver.path_to_uri": (ls, "path_to_uri"),
        "langserver.symbol_json": (ls, "symbol_json"),
        "Scope.check_definitions": (sc.Scope, "check_definitions"),
        "Scope.check_use": (sc.Scope, "check_use"),
        "Variable.get_hover": (va.Variable, "get_hover"),
        "utilities.find_in_scope": (ut, "find_in_scope"),
    }


BUGGIFY_NAMES = [
    "FortranFile.get_code_line", "FortranFile.parse", "FortranFile.load_from_disk",
    "FortranFile.apply_change", "FortranFile.check_file", "FortranFile.preprocess",
    "FortranAST.resolve_links", "FortranAST.resolve_includes", "FortranAST.get_inner_scope",
    "FortranAST.get_scopes", "LangServer.get_definition", "LangServer.get_all_references",
    "LangServer.update_workspace_file", "LangServer.get_diagnostics",
    "LangServer._create_ref_link", "LangServer._get_source_files", "LangServer._load_intrinsics",
    "langserver.find_in_scope", "langserver.find_in_workspace", "langserver.get_use_tree",
    "langserver.climb_type_tree", "langserver.get_line_prefix", "langserver.get_var_stack",
    "langserver.path_from_uri", "langserver.path_to_uri", "langserver.symbol_json",
    "Scope.check_definitions", "Scope.check_use", "Variable.get_hover",
    "utilities.find_in_scope",
]


def install_buggify(bugs: list[dict]):
    if not bugs:
        return
    table = _buggify_targets()
    by_target = {}
    for b in bugs:
        by_target.setdefault(b["target"], []).append(b)
    for target, lst in by_target.items():
        owner, attr = table[target]
        orig = getattr(owner, attr)
        counts = {}

        def wrapper(*a, __orig=orig, __lst=lst, __counts=counts, __target=target, **kw):
            S.sim += 1
            try:
                n = __counts.get(S.cur_op, 0)
                __counts[S.cur_op] = n + 1
                hit = None
                for b in __lst:
                    if b["op"] == S.cur_op and b["nth"] == n:
                        hit = b
                        break
                if hit is not None:
                    S.fired.append({"kind": "exc:" + hit["exc"], "seam": __target, "op": S.cur_op,
                                    "nth": n, "path": ""})
                    ev("fault", "exc:" + hit["exc"], __target, S.cur_op, n)
            finally:
                S.sim -= 1
            if hit is not None:
                raise _exc_by_name(hit["exc"])(f"injected fault in {__target}")
            return __orig(*a, **kw)

        setattr(owner, attr, wrapper)


# ----------------------------------------------------------------------------
# network / pip fakes


class _FakeResp:
    def __init__(self, body: bytes):
        self.body = body

    def read(self):
        return self.body

    def __enter__(self):
        return self

    def __exit__(self, *a):
        return False


def install_network(mode: str, record: list):
    import subprocess
    import urllib.request
    from urllib.error import URLError

    def urlopen(req, *a, **kw):
        S.sim += 1
        try:
            url = getattr(req, "full_url", str(req))
            record.append(["urlopen", url])
            ev("net", "urlopen", url, mode)
        finally:
            S.sim -= 1
        if mode == "down":
            raise URLError("network is unreachable (simulated)")
        if mode == "garbage":
            return _FakeResp(b"<html>captive portal</html>")
        if mode == "nokey":
            return _FakeResp(b'{"unexpected": 1}')
        ver = {"same": "0.0.1", "newer": "999.0.0", "pre": "999.0.0rc1"}[mode]
        return _FakeResp(json.dumps({"info": {"version": ver}}).encode())

    class _R:
        stdout = b""
        stderr = b""
        returncode = 0

    def run(cmd, *a, **kw):
        S.sim += 1
        try:
            record.append(["subprocess.run", [str(c) for c in cmd]])
            ev("net", "pip", len(cmd))
        finally:
            S.sim -= 1
        return _R()

    urllib.request.urlopen = urlopen
    subprocess.run = run
