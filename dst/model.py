"""Client-side reference model: what an LSP-conforming editor holds.

A document is a list of line contents (no terminators).  Line breaks are
LF, CRLF or CR, each exactly one break, in file contents and in inserted
text alike; inserted text is split on its own before it is spliced in
(editor semantics: a trailing CR of an insertion never fuses with a following
LF of the document).  Independent of fortls.
"""
from __future__ import annotations


class InvalidEdit(Exception):
    """The schedule asks for an edit outside the current model document
    (only possible after shrinking removed an earlier operation)."""


def split_lines(text: str) -> list[str]:
    out = []
    cur = []
    i = 0
    n = len(text)
    while i < n:
        c = text[i]
        if c == "\n":
            out.append("".join(cur))
            cur = []
        elif c == "\r":
            out.append("".join(cur))
            cur = []
            if i + 1 < n and text[i + 1] == "\n":
                i += 1
        else:
            cur.append(c)
        i += 1
    out.append("".join(cur))
    return out


def decode_disk(data: bytes) -> str:
    return data.decode("utf-8", errors="replace")


def lines_from_disk(data: bytes) -> list[str]:
    return split_lines(decode_disk(data))


# LSP positions count UTF-16 code units (the protocol's default and only mandatory encoding; fortls
# negotiates nothing else).  The model stores code points and converts at the boundary; for text
# inside the Basic Multilingual Plane both coincide.

def u16len(s: str) -> int:
    return len(s) + sum(1 for c in s if ord(c) > 0xFFFF)


def idx_to_u16(line: str, idx: int) -> int:
    return u16len(line[:idx])


def u16_to_idx(line: str, u: int) -> int:
    """index of the code point that starts at UTF-16 offset u; None inside a surrogate pair / past the end"""
    if line.isascii():
        return u if 0 <= u <= len(line) else None
    units = 0
    for i, c in enumerate(line):
        if units == u:
            return i
        if units > u:
            return None
        units += 2 if ord(c) > 0xFFFF else 1
    return len(line) if units == u else None


def pos_ok(lines: list[str], line: int, ch: int) -> bool:
    return 0 <= line < len(lines) and u16_to_idx(lines[line], ch) is not None


def to_wire(lines: list[str], change: dict) -> dict:
    """a change whose range is given in code-point columns of `lines` -> the same change in UTF-16 columns"""
    rng = change.get("range")
    if rng is None:
        return change
    out = dict(change)
    out["range"] = {k: {"line": rng[k]["line"],
                        "character": idx_to_u16(lines[rng[k]["line"]], rng[k]["character"])}
                    for k in ("start", "end")}
    return out


def apply_change(lines: list[str], change: dict) -> list[str]:
    text = change.get("text", "")
    rng = change.get("range")
    pieces = split_lines(text)
    if rng is None:
        return pieces
    sl, sc = rng["start"]["line"], rng["start"]["character"]
    el, ec = rng["end"]["line"], rng["end"]["character"]
    if not (pos_ok(lines, sl, sc) and pos_ok(lines, el, ec)) or (el, ec) < (sl, sc):
        raise InvalidEdit(f"range {sl}:{sc}-{el}:{ec} outside document of {len(lines)} lines")
    sc = u16_to_idx(lines[sl], sc)
    ec = u16_to_idx(lines[el], ec)
    head = lines[sl][:sc]
    tail = lines[el][ec:]
    mid = list(pieces)
    mid[0] = head + mid[0]
    mid[-1] = mid[-1] + tail
    return lines[:sl] + mid + lines[el + 1 :]


def norm_tabs(lines: list[str]) -> list[str]:
    return [ln.replace("\t", " ") for ln in lines]


def join(lines: list[str]) -> str:
    return "\n".join(lines)
