"""Generator toolbox shared by the property modules.  Everything here must be
independent of PYTHONHASHSEED: never iterate a set, always sort dict keys that
came from elsewhere, draw only from the rng handed in."""
from __future__ import annotations

import os

from . import frames, model
from .sim import CANON, ROOT

CORPUS_DIR = os.path.join(os.path.dirname(os.path.dirname(os.path.abspath(__file__))), "corpus")
_corpus = None


def corpus() -> dict[str, str]:
    """relative path -> text of the repository's sample sources (snapshot in /verif/corpus)"""
    global _corpus
    if _corpus is None:
        out = {}
        for r, ds, fs in os.walk(CORPUS_DIR):
            ds.sort()
            for f in sorted(fs):
                p = os.path.join(r, f)
                with open(p, "rb") as fh:
                    out[os.path.relpath(p, CORPUS_DIR)] = fh.read().decode("utf-8", "replace")
        _corpus = dict(sorted(out.items()))
    return _corpus


def corpus_sources():
    return [(k, v) for k, v in corpus().items() if not k.endswith(".h")]


# ------------------------------------------------------------------ messages


def req(i, method, params=None):
    m = {"jsonrpc": "2.0", "id": i, "method": method}
    if params is not None:
        m["params"] = params
    return {"k": "msg", "m": m}


def note(method, params=None):
    m = {"jsonrpc": "2.0", "method": method}
    if params is not None:
        m["params"] = params
    return {"k": "msg", "m": m}


def uri(path, style="min"):
    return frames.uri_encode(path, style)


def initialize(i=1, root=ROOT, by="rootPath", extra=None):
    p = {"processId": None, "capabilities": {}}
    if by == "rootPath":
        p["rootPath"] = root
    elif by == "rootUri":
        p["rootUri"] = uri(root)
    else:
        p["rootPath"] = root
        p["rootUri"] = uri(root)
    if extra:
        p.update(extra)
    return req(i, "initialize", p)


# what a full-featured client announces (a server may react to any of it, e.g. register for events)
FULL_CAPABILITIES = {
    "workspace": {"applyEdit": True, "configuration": True, "workspaceFolders": True,
                  "didChangeConfiguration": {"dynamicRegistration": True},
                  "didChangeWatchedFiles": {"dynamicRegistration": True, "relativePatternSupport": True},
                  "symbol": {"dynamicRegistration": True}, "executeCommand": {"dynamicRegistration": True}},
    "textDocument": {"synchronization": {"dynamicRegistration": True, "willSave": True, "didSave": True},
                     "completion": {"dynamicRegistration": True, "completionItem": {"snippetSupport": True}},
                     "hover": {"dynamicRegistration": True, "contentFormat": ["markdown", "plaintext"]},
                     "publishDiagnostics": {"relatedInformation": True, "versionSupport": True},
                     "definition": {"dynamicRegistration": True, "linkSupport": True}},
    "window": {"workDoneProgress": True, "showMessage": {}, "showDocument": {"support": True}},
    "general": {"positionEncodings": ["utf-16"]},
}


def initialized():
    return note("initialized", {})


def did_open(path, text, version=1):
    return note("textDocument/didOpen", {"textDocument": {
        "uri": uri(path), "languageId": "fortran", "version": version, "text": text}})


def did_change(path, changes, version=2):
    return note("textDocument/didChange", {"textDocument": {"uri": uri(path), "version": version},
                                           "contentChanges": changes})


def did_save(path):
    return note("textDocument/didSave", {"textDocument": {"uri": uri(path)}})


def did_close(path):
    return note("textDocument/didClose", {"textDocument": {"uri": uri(path)}})


def env_write(path, data):
    from . import sim

    if isinstance(data, str):
        data = data.encode("utf-8", "replace")  # editors replace what cannot be encoded when saving
    return {"k": "env", "do": "write", "path": path, "data": sim.enc_bytes(data)}


def env_delete(path):
    return {"k": "env", "do": "delete", "path": path}


def positional(i, method, path, line, ch, extra=None, rng=None):
    """rng given: optional members of the request parameters are varied (every value a
    conforming client may send), otherwise the common defaults are used"""
    p = {"textDocument": {"uri": uri(path)}, "position": {"line": line, "character": ch}}
    if method == "textDocument/references":
        p["context"] = {"includeDeclaration": True}
        if rng is not None:
            r = rng.random()
            if r < 0.35:
                p["context"] = {"includeDeclaration": False}
            elif r < 0.45:
                del p["context"]
    if method == "textDocument/rename":
        p["newName"] = "renamed_x"
        if rng is not None and rng.random() < 0.4:
            p["newName"] = rng.choice(["x", "a_very_long_new_name_0123456789", "é", "", "new name", "X9", "i"])
    if rng is not None:
        if method == "textDocument/completion" and rng.random() < 0.4:
            p["context"] = rng.choice([{"triggerKind": 1}, {"triggerKind": 2, "triggerCharacter": "%"},
                                       {"triggerKind": 3}])
        if method == "textDocument/signatureHelp" and rng.random() < 0.4:
            p["context"] = {"triggerKind": rng.choice([1, 2, 3]), "isRetrigger": rng.random() < 0.5,
                            "triggerCharacter": rng.choice(["(", ","])}
        if rng.random() < 0.15:
            p["workDoneToken"] = rng.choice([1, "tok"])
        if rng.random() < 0.1:
            p["partialResultToken"] = "p1"
    if method == "textDocument/codeAction":
        p = {"textDocument": {"uri": uri(path)},
             "range": {"start": {"line": line, "character": ch}, "end": {"line": line, "character": ch}},
             "context": {"diagnostics": []}}
    if extra:
        p.update(extra)
    return req(i, method, p)


POSITIONAL_METHODS = [
    "textDocument/hover", "textDocument/definition", "textDocument/implementation",
    "textDocument/references", "textDocument/documentHighlight", "textDocument/rename",
    "textDocument/signatureHelp", "textDocument/completion", "textDocument/codeAction",
]


def exit_ops(i):
    return [req(i, "shutdown"), note("exit")]


# ------------------------------------------------------------------ texts

NONASCII = ["é", "ß", "ø", "λ", "Ж", "中", "日本", "ñ", "ü", "€", "→", " ", "ı",
            # characters some library routines take for line breaks or fold specially (LSP and
            # Fortran do not): form feed, vertical tab, separators, NEL, LS, PS; dotted capital I,
            # long s, Kelvin sign (case-insensitive matching accepts them for i, s, k)
            "\x0c", "\x0b", "\x1c", "\x1e", "\x85", "\u2028", "\u2029", "\u0130", "\u017f", "\u212a"]
ASTRAL = ["\U0001F600", "\U00010348", "\U0001D11E"]
FORTRAN_TOKENS = [
    "integer", "real", "::", "x", "y", "n", "(", ")", ",", "=", "+", "*", "call", "foo", "bar",
    "end", "if", "then", "do", "i", "1", "2.0", "'s'", '"t"', "!", "&", ";", "%", "module",
    "subroutine", "function", "type", "contains", "use", "only", ":", "implicit none", "program",
    "print *,", "associate", "=>", "block", "select case", "interface", "procedure",
]


def rand_ident(rng, n=None):
    n = n or rng.randint(1, 8)
    first = "abcdefghijklmnopqrstuvwxyz"
    rest = first + "0123456789_"
    return rng.choice(first) + "".join(rng.choice(rest) for _ in range(n - 1))


def rand_line(rng, nonascii=0.1):
    k = rng.randint(0, 7)
    toks = [rng.choice(FORTRAN_TOKENS) for _ in range(k)]
    if rng.random() < nonascii:
        toks.insert(rng.randint(0, len(toks)), "! " + rng.choice(NONASCII))
    return " " * rng.choice([0, 0, 2, 4, 6]) + " ".join(toks)


def rand_insert_text(rng):
    """text a user might type or paste: pieces joined by LF / CRLF / CR"""
    kind = rng.random()
    if kind < 0.25:
        t = rng.choice(FORTRAN_TOKENS + [" ", "a", "_1", "é"])
        if rng.random() < 0.3:
            t += rng.choice(["\n", "\r\n", "\r"])
        return t
    if kind < 0.35:
        return rng.choice(["\n", "\r\n", "\r", "\n\n", "\r\n\r\n", "\r\r", "\n\r", "\r\n\n"])
    nl = rng.choice(["\n", "\n", "\r\n", "\r", None])
    n = rng.randint(1, 4)
    pieces = [rand_line(rng) for _ in range(n)]
    out = ""
    for j, pz in enumerate(pieces):
        out += pz
        if j < n - 1:
            out += nl or rng.choice(["\n", "\r\n", "\r"])
    if rng.random() < 0.4:
        out += nl or rng.choice(["\n", "\r\n", "\r"])
    return out


def rand_position(rng, lines, bias_end=0.25):
    li = rng.randrange(len(lines))
    if rng.random() < 0.08:
        li = len(lines) - 1
    n = len(lines[li])
    r = rng.random()
    if r < bias_end:
        ch = n
    elif r < bias_end + 0.1:
        ch = 0
    else:
        ch = rng.randint(0, n)
    return li, ch


def rand_range(rng, lines):
    a = rand_position(rng, lines)
    r = rng.random()
    if r < 0.3:
        b = a
    elif r < 0.7:
        b = (a[0], rng.randint(a[1], len(lines[a[0]])))
    else:
        b = rand_position(rng, lines)
        if rng.random() < 0.6:  # keep multi-line ranges mostly short
            bl = min(len(lines) - 1, a[0] + rng.randint(0, 3))
            b = (bl, rng.randint(0, len(lines[bl])))
    if b < a:
        a, b = b, a
    return {"start": {"line": a[0], "character": a[1]}, "end": {"line": b[0], "character": b[1]}}


def rand_change(rng, lines, full_prob=0.05):
    if rng.random() < full_prob:
        n = rng.randint(0, 6)
        text = "".join(rand_line(rng) + rng.choice(["\n", "\r\n", "\r"]) for _ in range(n))
        if rng.random() < 0.5:
            text += rand_line(rng)
        return {"text": text}
    r = rng.random()
    rngd = rand_range(rng, lines)
    if r < 0.2:
        text = ""
    else:
        text = rand_insert_text(rng)
    return {"range": rngd, "text": text}


# ------------------------------------------------------------------ small programs


def small_program(rng, tag="p", nonascii=False):
    """one self-contained free-form source with a module, a type, procedures and uses"""
    m = f"m_{tag}"
    t = f"t_{tag}"
    v1, v2 = f"alpha_{tag}", f"beta_{tag}"
    doc = " é→λ" if nonascii else ""
    lines = [
        f"module {m}",
        "  implicit none",
        f"  integer, parameter :: n_{tag} = {rng.randint(1, 9)}",
        f"  !> documented{doc}",
        f"  real :: {v1}({rng.randint(2, 5)})",
        # a declaration continued over two lines, several names on the continuation line
        f"  integer :: first_{tag}, &",
        f"       second_value_with_a_long_name_{tag}, cc_{tag}",
        f"  type :: {t}",
        "    integer :: a",
        f"    real :: b = {rng.randint(0, 9)}.0",
        "  contains",
        f"    procedure :: show => show_{tag}",
        f"  end type {t}",
        "contains",
        f"  subroutine show_{tag}(self)",
        f"    class({t}), intent(in) :: self",
        "    print *, self%a, self%b",
        f"    cc_{tag} = first_{tag} + &",
        f"         second_value_with_a_long_name_{tag} + cc_{tag}",
        f"  end subroutine show_{tag}",
        f"  function twice_{tag}(x) result(r)",
        f"    !! doubles{doc}",
        "    real, intent(in) :: x",
        "    real :: r",
        "    r = 2.0 * x",
        f"  end function twice_{tag}",
        f"end module {m}",
        "",
        f"program prog_{tag}",
        f"  use {m}, only: {t}, twice_{tag}, {v1}",
        "  implicit none",
        f"  type({t}) :: obj",
        f"  real :: {v2}",
        "  integer :: i",
        "  obj%a = 1",
        f"  {v2} = twice_{tag}(obj%b) + {v1}(1)",
        "  do i = 1, 3",
        f"    {v2} = {v2} + i",
        "  end do",
        "  call obj%show()",
        f"end program prog_{tag}",
    ]
    return "\n".join(lines) + "\n"
