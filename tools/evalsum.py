import sys, json, glob, os
for f in sorted(glob.glob('/verif/seeded/*/eval.json')):
    r=json.load(open(f)); name=r.get("name")
    line=f"{name}: applies={r.get('patch_applies')} demo {r.get('demo_without_patch_rc')}->{r.get('demo_with_patch_rc')} suite='{str(r.get('suite_summary'))[:24]}' failed={r.get('suite_failed')}"
    for c,v in r.get("checks",{}).items():
        line+=f" | {c}: rc={v['rc']} {v['secs']}s"
    print(line)
    for c,v in r.get("checks",{}).items():
        for l in v["lines"][:3]:
            if l.startswith(("VIOLATION","  clause","HARNESS")): print("      ", l[:200])
