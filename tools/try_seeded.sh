#!/bin/sh
# usage: tools/try_seeded.sh <seeded id> <check id> [check args...]  -- run one check against a scratch worktree with the seeded patch
name=$1; shift; chk=$1; shift
wt=/var/tmp/try-$name-$$
git -C /repo worktree add --detach $wt HEAD -q || exit 3
git -C $wt apply /verif/seeded/$name/patch.diff || { git -C /repo worktree remove --force $wt; exit 3; }
cd /verif && ./check $chk --repo $wt "$@"; rc=$?
git -C /repo worktree remove --force $wt; git -C /repo worktree prune
exit $rc
