#!/venv/bin/python
"""Evaluate one independently seeded change:  tools/eval_seeded.py <dir with patch.diff, demo.py> <name> <prop> [more checks...]

1. scratch worktree of /repo HEAD (outside /repo and /verif), patch applied
2. demonstration must fail with the patch and pass without it
3. the pinned test-suite must still pass with the patch
4. the listed checks are run against the patched tree (--repo <worktree>)
Writes <dir>/eval.json and removes the worktree."""
import json
import os
import re
import subprocess
import sys
import time

VERIF = os.path.dirname(os.path.dirname(os.path.abspath(__file__)))


def sh(cmd, cwd=None, env=None, timeout=3600):
    t0 = time.time()
    p = subprocess.run(cmd, shell=True, cwd=cwd, env=env, capture_output=True, text=True, timeout=timeout)
    return p.returncode, p.stdout + p.stderr, time.time() - t0


def main():
    d = os.path.abspath(sys.argv[1])
    name = sys.argv[2]
    checks = sys.argv[3:]
    skip_suite = os.environ.get("SKIP_SUITE") == "1"
    wt = f"/tmp/evalwt-{name}"
    sh(f"git -C /repo worktree remove --force {wt}")
    rc, out, _ = sh(f"git -C /repo worktree add --detach {wt} HEAD")
    assert rc == 0, out
    res = {"name": name, "checks": {}}
    env = dict(os.environ, PYTHONPATH=wt, PYTHONDONTWRITEBYTECODE="1")
    try:
        # the demonstrations locate the tree under test relative to their own path
        # (<worktree>/SEEDED/<x>/demo.py), so run a copy from exactly there
        sub = os.path.join(wt, "SEEDED", "x")
        os.makedirs(sub, exist_ok=True)
        sh(f"cp {os.path.join(d, 'demo.py')} {sub}/demo.py")
        demo = os.path.join(sub, "demo.py")
        tmpd = f"/tmp/evaltmp-{name}"
        sh(f"rm -rf {tmpd}; mkdir -p {tmpd}")
        env["TMPDIR"] = tmpd
        rc, out, _ = sh(f"/venv/bin/python {demo}", cwd=wt, env=env, timeout=600)
        res["demo_without_patch_rc"] = rc
        res["demo_without_patch_tail"] = out[-400:]
        rc, out, _ = sh(f"git -C {wt} apply {os.path.join(d, 'patch.diff')}")
        res["patch_applies"] = rc == 0
        if rc != 0:
            res["error"] = out[-500:]
            return res
        rc, out, _ = sh(f"/venv/bin/python {demo}", cwd=wt, env=env, timeout=600)
        res["demo_with_patch_rc"] = rc
        res["demo_with_patch_tail"] = out[-600:]
        if not skip_suite:
            rc, out, secs = sh("/venv/bin/python -m pytest -q -p no:cacheprovider -p no:hypothesispytest --timeout=900 test 2>&1 | tail -25",
                               cwd=wt, env=env)
            m = re.search(r"(\d+) failed, (\d+) passed|(\d+) passed", out)
            res["suite_summary"] = m.group(0) if m else out[-300:]
            failed = re.findall(r"FAILED (\S+)", out)
            res["suite_failed"] = failed
            sh(f"git -C {wt} checkout -- htmlcov coverage.xml")
        for c in checks:
            rc, out, secs = sh(f"./check {c} --repo {wt}", cwd=VERIF)
            lines = [ln for ln in out.splitlines() if ln.startswith(("VIOLATION", "  clause", "  detail", "KNOWN", "HARNESS", c))]
            res["checks"][c] = {"rc": rc, "secs": round(secs, 1), "lines": [ln[:400] for ln in lines[:14]]}
    finally:
        sh(f"git -C /repo worktree remove --force {wt}")
        sh("git -C /repo worktree prune")
        sh(f"rm -rf /tmp/evaltmp-{name}")
    prev_path = os.path.join(d, "eval.json")
    if skip_suite and os.path.exists(prev_path):
        prev = json.load(open(prev_path))
        for k in ("suite_summary", "suite_failed"):
            if k in prev and k not in res:
                res[k] = prev[k]
        merged = dict(prev.get("checks", {}))
        merged.update(res["checks"])
        res["checks"] = merged
    with open(os.path.join(d, "eval.json"), "w") as f:
        json.dump(res, f, indent=1)
    return res


if __name__ == "__main__":
    r = main()
    print(json.dumps(r, indent=1)[:6000])
