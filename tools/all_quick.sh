#!/bin/sh
# run every registered quick check once (optionally VERIF_SEED=n tools/all_quick.sh); summary on stdout
cd /verif
for p in C01 C02 C03 C09 C10 C15 C16 C17 C18 C19 C20; do
  start=$(date +%s)
  out=$(./check $p --tier quick 2>&1); rc=$?
  end=$(date +%s)
  echo "$p rc=$rc $((end-start))s :: $(echo "$out" | grep -E "^$p quick" | cut -c1-200)"
  echo "$out" | grep -E "^(VIOLATION|HARNESS|KNOWN|NOTE)" | cut -c1-300
done
