#!/bin/sh
# run the repository's pinned suite (guard off: there are no hooks) and compare with BASELINE.json
mkdir -p /verif/out; cd /repo && /venv/bin/python -m pytest -ra -q -p no:cacheprovider --timeout=900 --continue-on-collection-errors --junitxml=/verif/out/junit_baseline.xml > /verif/out/pytest_baseline.log 2>&1
git -C /repo checkout -- htmlcov coverage.xml 2>/dev/null
/venv/bin/python - <<'PY'
import xml.etree.ElementTree as ET, json, sys
r=ET.parse('/verif/out/junit_baseline.xml').getroot()
base=set(json.load(open('/root/.vp/BASELINE.json'))['stable_pass'])
passed=set()
for tc in r.iter('testcase'):
    name=f"{tc.attrib['classname']}::{tc.attrib['name']}"
    if not any(c.tag in ('failure','error','skipped') for c in tc): passed.add(name)
missing=sorted(base-passed)
print(f"baseline: {len(base & passed)}/{len(base)} stable tests pass; missing: {missing}")
sys.exit(1 if missing else 0)
PY
