#!/venv/bin/python
"""Write seeded/<id>/meta.json from the evaluation record (eval.json) of each seeded change."""
import json
import os
import sys

VERIF = os.path.dirname(os.path.dirname(os.path.abspath(__file__)))

NEEDS = {
    "C01a": "a request arriving after `shutdown` and before `exit` (the new shutdown handler ends the serve loop)",
    "C01b": "textDocument/references with context.includeDeclaration == false on a user-defined symbol: the lazy "
            "filter object is not JSON-serialisable, the TypeError escapes write_response and ends the loop",
    "C02a": "a ranged change confined to one line whose inserted text contains a bare CR",
    "C02b": "single-line edits without line breaks (hash not invalidated), then didClose/didOpen without saving",
    "C03a": "a top-level declaration, a bare END, then another top-level declaration/USE (ValueError in create_none_scope)",
    "C03b": "two macros that reference each other, used on an active line of a preprocessed file (endless rescan)",
    "C09a": "one didChange notification with >=2 changes, a non-last one changing the line structure and the last "
            "one a comment edit: the document is updated but not re-parsed, positions come from the stale tree",
    "C09b": "a preprocessed file that defines a macro and a request whose line is at or past the end of the file",
    "C10a": "incremental sync, a single-line ranged edit, then the edit discarded (didClose without save, re-open)",
    "C10b": "inheritance chain over three files where the outer file does not name the inner module; edit+save of "
            "the innermost file, query through the inherited component in the outermost",
    "C15a": "an entity defined in an INCLUDE file plus a cached cross-file link to it; the linking file enumerated "
            "before the including file at start-up",
    "C15b": "a split EXTERNAL declaration in one file and attribute-less declarations in another parsed later by "
            "the same process (memoised keyword list mutated in place)",
    "C16a": "an outgoing message with non-ASCII text whose byte length crosses a multiple of 8192 that its character "
            "length does not (chunked write counts characters)",
    "C16b": "an inbound body delivered in several reads with a boundary inside a multi-byte UTF-8 character",
    "C17a": "an #if condition that is a ~1000-1400 term operator chain containing a macro with a call expression "
            "(RecursionError in the whitelist walk -> eval fallback)",
    "C17b": "debug_log on, a file already indexed, then a version of it on which the indexer raises: the unsaved "
            "buffer is written to <root>/fortls_debug_<name>.txt",
    "C18a": "no source_dirs configured, a literal directory in excl_paths, sources in a sub-directory of it",
    "C18b": "an incl_suffixes entry and a file whose suffix is a case variant of it",
    "C19a": "a set-valued option given non-empty on the command line and as [] in the configuration file",
    "C19b": "a configuration file with a wrong-typed option of a later group and a valid, CLI-differing option of an "
            "earlier group",
    "C20a": "an EXTENDS cycle plus a tail type extending a member of it, a member name shared by tail and chain, and a "
            "references/highlight/rename on that name",
    "C01c": "main() reads stdin unbuffered (FileIO): a body delivered in two pieces or larger than the pipe buffer is "
            "read short (the stream wiring is done in fortls.main(), not in LangServer)",
    "C01d": "a handler failure whose exception has an empty message (str(e) == ''): the error path itself raises",
    "C02c": "a whole-document change with text T, in-line edits, then another change with the same text T "
            "(memoised line split shares its list with the document)",
    "C02d": "a didSave handled while the disk read fails, followed by further didChange (the open document is dropped)",
    "C03c": "a preprocessed file with an active #include of a header containing bytes that are not valid UTF-8",
    "C03d": "two preprocessed documents: A defines M, B #undef/#define M, A re-indexed without M, then B re-indexed "
            "(KeyError deleting an already removed macro)",
    "C09c": "a document created after initialize whose first read (didOpen/didSave) fails or races, then "
            "documentSymbol/codeAction on it or a didChange of another file",
    "C09d": "a chain of three files (c uses only b, b uses a, c's type extends a's type), an unsaved multi-line edit "
            "of a, then a request in c/main through the inherited component",
    "C10c": "a didSave/didOpen/didClose of an unchanged file while open() fails, the file comes back identical and is "
            "announced again (hash shortcut skips re-indexing)",
    "C10d": "an earlier query through v%... caches the type, then the type becomes unreachable without either file "
            "being re-parsed (defining file deleted, or a re-exporting module edited)",
    "C15c": "a load fault at start-up on a file that is not enumerated last (zip shifts the registration of the rest)",
    "C15d": "a cross-file link through a re-exporting module, with the defining file opened after the dependent file "
            "and the re-exporter",
    "C16c": "two file URIs that differ only in letter case converted in one server process (memo keyed on lower case)",
    "C16d": "an error response (write_error) whose text contains non-ASCII characters",
    "C17c": "the same unsafe #if condition evaluated at least twice in the long-lived process (compiled-condition "
            "cache filled before the whitelist check)",
    "C17d": "a configuration file that JSON5 rejects but that is a valid Python expression",
    "C18c": "a source directory containing an entry whose stat fails with something other than ENOENT (symlink loop) "
            "before other sources in listing order",
    "C18d": "at least two excl_suffixes and a file name containing a non-last one in the middle (hash-seed dependent)",
    "C19c": "the -c file unreadable / vanishing / invalid while another default-named configuration file exists",
    "C19d": "pp_defs given on the command line and in the file with different contents, then a re-parse of a document",
    "C20c": "an INCLUDE cycle through program units plus a second includer of one cycle member from outside, "
            "resolved in a particular order",
    "C20b": "a '=>' link cycle across two modules that USE each other, a didChange of the file whose link was "
            "refused at start-up, then a query",
}


def main():
    rows = []
    for name in sorted(os.listdir(os.path.join(VERIF, "seeded"))):
        d = os.path.join(VERIF, "seeded", name)
        ev_path = os.path.join(d, "eval.json")
        if not os.path.exists(ev_path):
            continue
        ev = json.load(open(ev_path))
        prop = name[:3]
        detected = [c for c, v in ev.get("checks", {}).items() if v["rc"] == 1]
        missed = [c for c, v in ev.get("checks", {}).items() if v["rc"] == 0]
        broken = [c for c, v in ev.get("checks", {}).items() if v["rc"] not in (0, 1)]
        meta = {
            "id": name,
            "property": prop,
            "origin": "independent sub-agent given only the property text and a scratch worktree",
            "needs_to_manifest": NEEDS.get(name, "see README.md"),
            "confirmed": {
                "patch_applies_to_repo_head": ev.get("patch_applies"),
                "demo_exit_without_patch": ev.get("demo_without_patch_rc"),
                "demo_exit_with_patch": ev.get("demo_with_patch_rc"),
                "pinned_suite_with_patch": ev.get("suite_summary"),
                "pinned_suite_failures_with_patch": ev.get("suite_failed"),
            },
            "ran": ["tools/eval_seeded.py seeded/%s %s %s" % (name, name, " ".join(ev.get("checks", {})))],
            "checks": {c: {"exit": v["rc"], "seconds": v["secs"], "lines": v["lines"][:6]}
                       for c, v in ev.get("checks", {}).items()},
            "detected_by": detected,
            "missed_by": missed,
            "harness_error_in": broken,
        }
        extra = os.path.join(d, "note.txt")
        if os.path.exists(extra):
            meta["note"] = open(extra).read().strip()
        with open(os.path.join(d, "meta.json"), "w") as f:
            json.dump(meta, f, indent=1)
        rows.append((name, ev.get("demo_without_patch_rc"), ev.get("demo_with_patch_rc"),
                     ev.get("suite_summary"), detected, missed, broken))
    for r in rows:
        print(r)


if __name__ == "__main__":
    main()
