#!/venv/bin/python
"""Write seeded/<id>/meta.json from the evaluation record (eval.json) of each seeded change."""
import json
import os
import sys

VERIF = os.path.dirname(os.path.dirname(os.path.abspath(__file__)))

NEEDS = {
    "C01a": "a request arriving after `shutdown` and before `exit` (the new shutdown handler ends the serve loop)",
    "C01b": "textDocument/references with context.includeDeclaration == false on a user-defined symbol: the lazy "
            "filter object is not JSON-serialisable, the TypeError escapes write_response and ends the loop",
    "C02a": "a ranged change confined to one line whose inserted text contains a bare CR",
    "C02b": "single-line edits without line breaks (hash not invalidated), then didClose/didOpen without saving",
    "C03a": "a top-level declaration, a bare END, then another top-level declaration/USE (ValueError in create_none_scope)",
    "C03b": "two macros that reference each other, used on an active line of a preprocessed file (endless rescan)",
    "C09a": "one didChange notification with >=2 changes, a non-last one changing the line structure and the last "
            "one a comment edit: the document is updated but not re-parsed, positions come from the stale tree",
    "C09b": "a preprocessed file that defines a macro and a request whose line is at or past the end of the file",
    "C10a": "incremental sync, a single-line ranged edit, then the edit discarded (didClose without save, re-open)",
    "C10b": "inheritance chain over three files where the outer file does not name the inner module; edit+save of "
            "the innermost file, query through the inherited component in the outermost",
    "C15a": "an entity defined in an INCLUDE file plus a cached cross-file link to it; the linking file enumerated "
            "before the including file at start-up",
    "C15b": "a split EXTERNAL declaration in one file and attribute-less declarations in another parsed later by "
            "the same process (memoised keyword list mutated in place)",
    "C16a": "an outgoing message with non-ASCII text whose byte length crosses a multiple of 8192 that its character "
            "length does not (chunked write counts characters)",
    "C16b": "an inbound body delivered in several reads with a boundary inside a multi-byte UTF-8 character",
    "C17a": "an #if condition that is a ~1000-1400 term operator chain containing a macro with a call expression "
            "(RecursionError in the whitelist walk -> eval fallback)",
    "C17b": "debug_log on, a file already indexed, then a version of it on which the indexer raises: the unsaved "
            "buffer is written to <root>/fortls_debug_<name>.txt",
    "C18a": "no source_dirs configured, a literal directory in excl_paths, sources in a sub-directory of it",
    "C18b": "an incl_suffixes entry and a file whose suffix is a case variant of it",
    "C19a": "a set-valued option given non-empty on the command line and as [] in the configuration file",
    "C19b": "a configuration file with a wrong-typed option of a later group and a valid, CLI-differing option of an "
            "earlier group",
    "C20a": "an EXTENDS cycle plus a tail type extending a member of it, a member name shared by tail and chain, and a "
            "references/highlight/rename on that name",
    "C01c": "main() reads stdin unbuffered (FileIO): a body delivered in two pieces or larger than the pipe buffer is "
            "read short (the stream wiring is done in fortls.main(), not in LangServer)",
    "C01d": "a handler failure whose exception has an empty message (str(e) == ''): the error path itself raises",
    "C02c": "a whole-document change with text T, in-line edits, then another change with the same text T "
            "(memoised line split shares its list with the document)",
    "C02d": "a didSave handled while the disk read fails, followed by further didChange (the open document is dropped)",
    "C03c": "a preprocessed file with an active #include of a header containing bytes that are not valid UTF-8",
    "C03d": "two preprocessed documents: A defines M, B #undef/#define M, A re-indexed without M, then B re-indexed "
            "(KeyError deleting an already removed macro)",
    "C09c": "a document created after initialize whose first read (didOpen/didSave) fails or races, then "
            "documentSymbol/codeAction on it or a didChange of another file",
    "C09d": "a chain of three files (c uses only b, b uses a, c's type extends a's type), an unsaved multi-line edit "
            "of a, then a request in c/main through the inherited component",
    "C10c": "a didSave/didOpen/didClose of an unchanged file while open() fails, the file comes back identical and is "
            "announced again (hash shortcut skips re-indexing)",
    "C10d": "an earlier query through v%... caches the type, then the type becomes unreachable without either file "
            "being re-parsed (defining file deleted, or a re-exporting module edited)",
    "C15c": "a load fault at start-up on a file that is not enumerated last (zip shifts the registration of the rest)",
    "C15d": "a cross-file link through a re-exporting module, with the defining file opened after the dependent file "
            "and the re-exporter",
    "C16c": "two file URIs that differ only in letter case converted in one server process (memo keyed on lower case)",
    "C16d": "an error response (write_error) whose text contains non-ASCII characters",
    "C17c": "the same unsafe #if condition evaluated at least twice in the long-lived process (compiled-condition "
            "cache filled before the whitelist check)",
    "C17d": "a configuration file that JSON5 rejects but that is a valid Python expression",
    "C18c": "a source directory containing an entry whose stat fails with something other than ENOENT (symlink loop) "
            "before other sources in listing order",
    "C18d": "at least two excl_suffixes and a file name containing a non-last one in the middle (hash-seed dependent)",
    "C19c": "the -c file unreadable / vanishing / invalid while another default-named configuration file exists",
    "C19d": "pp_defs given on the command line and in the file with different contents, then a re-parse of a document",
    "C20c": "an INCLUDE cycle through program units plus a second includer of one cycle member from outside, "
            "resolved in a particular order",
    "C01e": "a well-formed message that makes the server echo a lone UTF-16 surrogate (only expressible as a "
            "\\uXXXX escape): responses serialised with ensure_ascii=False cannot be encoded",
    "C01f": "a request (with id) whose method starts with '$/': dropped without any response",
    "C02e": "a document or inserted text containing a character str.splitlines() takes for a line break but LSP "
            "does not (FF, VT, FS/GS/RS, NEL, LS, PS)",
    "C02f": "document versions that restart after didClose/didOpen below a version seen earlier (the guard "
            "drops the second-life changes)",
    "C03e": "LATIN CAPITAL LETTER I WITH DOT ABOVE inside a type keyword at the start of a statement "
            "(matches re.I, survives upper(): KeyError in the spelling table)",
    "C03f": "a function-like macro visible and a malformed invocation with a run of >= 25 characters without "
            "comma or parenthesis (exponential backtracking inside the regex engine, no Python steps)",
    "C09e": "completion in column 0 / leading blanks of a continuation line behind 'name &' where the name "
            "completes to a callable: textEdit with negative character offsets",
    "C09f": "a file rewritten on disk with the same size and the same time stamp (coarse or frozen file-system "
            "clock), announced by didOpen/didSave/didClose: stale text and tree",
    "C10e": "a main program without PROGRAM statement that USEs a module, an earlier lookup from it, then a "
            "change of what is reachable through that module in another file",
    "C10f": "a file that enters the workspace after start-up (created, moved) while an unchanged file holds a "
            "dangling link into it (EXTENDS, bindings, submodule parent)",
    "C15e": "a type defined inside a submodule that EXTENDS a type of the parent module; query on an inherited "
            "component; start-up versus particular opening orders",
    "C15f": "a name with two candidate definitions of different precedence (procedure-local USE ... ONLY hiding a "
            "host-module entity), linking file opened before the preferred definition's file",
    "C16e": "a path that Unicode NFC normalisation changes (decomposed accent, Angstrom/Ohm sign, compatibility "
            "ideographs)",
    "C16f": "same mechanism as C01c, produced independently: unbuffered stdin in main(), a body delivered in "
            "pieces or larger than one read",
    "C17e": "#if condition compiled and evaluated after assert-based whitelisting (the asserts vanish under "
            "python -O); flagged as evaluation of file text at any optimisation level",
    "C17f": "a configuration file with the new log_config option carrying a dictConfig '()' factory or a "
            "FileHandler, debug log enabled",
    "C18e": "two regex builds in one process: incl_suffixes given on the command line and overridden by the "
            "configuration file (module-level list extended in place)",
    "C18f": "no source_dirs, an incl_suffixes entry that is not a plain '.ext' and a directory whose sources all "
            "carry it",
    "C19e": "a configuration file outside the root directory (-c conf/x.json or absolute) with relative "
            "source_dirs/excl_paths/include_dirs entries",
    "C19f": "sort_keywords differing between file and command line, a re-parse inside the server process, then "
            "hover on a declaration whose attributes are not in canonical order",
    "C20e": "a submodule parent cycle plus a submodule hanging off it (rho shape) and a lookup from inside the "
            "latter that reaches the ancestor search",
    "C20f": "an EXTENDS ring and a member-access chain of >= 3 parts whose middle part is no component",
    "C01g": "a message body carrying raw (unescaped) multi-byte UTF-8: the 'complete short reads' loop counts "
            "characters against a byte length and swallows the next header",
    "C01h": "a $/cancelRequest notification naming id X, then (at any later time) a request with id X",
    "C02g": "an ASCII-only document, a one-line ranged edit inserting a non-BMP character, then another ranged "
            "edit behind it on the same line before any whole-document change (stale ascii_only flag)",
    "C02h": "a file larger than one I/O block with a multi-byte UTF-8 character straddling a block boundary, "
            "loaded by didOpen/didSave",
    "C03g": "an evaluated #if/#elif whose evaluation raises OverflowError, MemoryError or RecursionError",
    "C03h": "neutralised (see note): persistent per-path cache of compiled macro patterns",
    "C09g": "incremental sync; a statement continued over lines with several names on a continuation line; a "
            "definition request, a one-line edit shortening that line, the definition request again",
    "C09h": "workspace/didChangeWatchedFiles for an open document with unsaved edits (the buffer is replaced by "
            "the disk version)",
    "C10g": "file A with 'use b, only: x' and 'use c', file C with 'use b, only: y', an earlier lookup in A, then "
            "only C edited so that it no longer imports y",
    "C10h": "TAB characters in syntactically relevant places, a re-parsing didChange, then a save of exactly the "
            "buffer text (the reload that expands TABs is skipped)",
    "C15g": "an INCLUDE naming, by its bare name, a fragment that lives in another source directory",
    "C15h": "a three-level EXTENDS chain over three files, opened leaf, middle, root",
    "C16g": "a '+' left unescaped in a file URI path",
    "C16h": "a lone surrogate brought in by didChange inside a documentation comment that hover/completion echo",
    "C17g": "an INTEGER PARAMETER whose initialiser contains '*': the text is eval()ed when diagnostics are computed",
    "C17h": "a source_dirs/excl_paths/include_dirs entry containing '{', '$' or '~': pasted into bash -c",
    "C18g": "two start-ups in one process with the same glob string and a tree that changed in between",
    "C18h": "a wildcard in source_dirs/excl_paths that only matches through a dot-prefixed directory or file",
    "C19g": "configuration file rewritten so that an option disappears, then workspace/didChangeConfiguration",
    "C19h": "--lowercase_intrinsics on the command line and false in the file, then any answer with an intrinsic",
    "C20g": "a submodule parent ring of length >= 2 without any IMPLICIT statement and a procedure in a ring member",
    "C20h": "a procedure with two dummy procedures whose interface leads back to it",
    "C01i": "the server sends a request to the client (client/registerCapability) and waits for the reply by id "
            "alone; a pipelined client request with the same id is taken for the reply and never answered",
    "C01j": "a failing request whose id is 0 or '' (falsy): the error response is skipped",
    "C02i": "workspace/didChangeWatchedFiles for an open, clean document whose file another tool rewrote",
    "C02j": "a closed file replaced by other contents of the same size and time stamp, then didOpen",
    "C03i": "a statement label or DO label of more than 4300 digits (int() limit of CPython 3.12)",
    "C03j": "a didChange text containing half a surrogate pair (hashing encodes it as UTF-8)",
    "C09i": "a document containing a character str.splitlines() treats as a line break (FF, VT, NEL, LS, PS, ...)",
    "C09j": "document versions restarting after close/re-open below an earlier version, then a shrinking change",
    "C10i": "a file whose diagnostics depend on a module that is deleted and closed, no re-parse in between, then "
            "diagnostics of the unchanged file again",
    "C10j": "a declarations-only INCLUDE fragment with a type that the includer extends; the fragment edited and "
            "saved last (no unit-exporting file re-parsed afterwards)",
    "C15i": "a workspace module named like a bundled intrinsic module (omp_lib, iso_c_binding, ...)",
    "C15j": "one worker versus several: preprocessed sources in two directories, a header in the other one's "
            "directory (include_dirs mutated in place without the pickling round trip)",
    "C16i": "initialize with an integer processId, two messages arriving in one read, a client that then waits: "
            "select() on the descriptor cannot see what the buffered reader already holds",
    "C16j": "a path with a literal percent escape that does not exist (deleted) while its once-more-decoded "
            "sibling exists",
    "C17i": "a non-preprocessed source of at least 5000 lines at start-up (pickle cache written into the root, "
            "loaded on the next start)",
    "C17j": "recursion_limit above 1000 (configuration file or command line): a crash log is created in the root",
    "C18i": "a literal source_dirs/excl_paths entry with a '..' segment or through a symlinked directory",
    "C18j": "a source file whose name is not in Unicode NFC",
    "C19i": "max_line_length on the command line and in the file with different values, max_comment_line_length "
            "given nowhere, a comment line between the two limits",
    "C19j": "a wrong-typed pp_suffixes in the file with --pp_suffixes absent (type check skipped for None default)",
    "C20i": "an EXTENDS ring plus a type off the ring, completion inside its still open EXTENDS( clause",
    "C20j": "a function whose result is a procedure pointer declared with the function itself, and a member "
            "access or ASSOCIATE name based on a call of it",
    "C20b": "a '=>' link cycle across two modules that USE each other, a didChange of the file whose link was "
            "refused at start-up, then a query",
}


def main():
    rows = []
    for name in sorted(os.listdir(os.path.join(VERIF, "seeded"))):
        d = os.path.join(VERIF, "seeded", name)
        ev_path = os.path.join(d, "eval.json")
        if not os.path.exists(ev_path):
            continue
        ev = json.load(open(ev_path))
        prop = name[:3]
        detected = [c for c, v in ev.get("checks", {}).items() if v["rc"] == 1]
        missed = [c for c, v in ev.get("checks", {}).items() if v["rc"] == 0]
        broken = [c for c, v in ev.get("checks", {}).items() if v["rc"] not in (0, 1)]
        meta = {
            "id": name,
            "property": prop,
            "origin": "independent sub-agent given only the property text and a scratch worktree",
            "needs_to_manifest": NEEDS.get(name, "see README.md"),
            "confirmed": {
                "patch_applies_to_repo_head": ev.get("patch_applies"),
                "demo_exit_without_patch": ev.get("demo_without_patch_rc"),
                "demo_exit_with_patch": ev.get("demo_with_patch_rc"),
                "pinned_suite_with_patch": ev.get("suite_summary"),
                "pinned_suite_failures_with_patch": ev.get("suite_failed"),
            },
            "ran": ["tools/eval_seeded.py seeded/%s %s %s" % (name, name, " ".join(ev.get("checks", {})))],
            "checks": {c: {"exit": v["rc"], "seconds": v["secs"], "lines": v["lines"][:6]}
                       for c, v in ev.get("checks", {}).items()},
            "detected_by": detected,
            "missed_by": missed,
            "harness_error_in": broken,
        }
        extra = os.path.join(d, "note.txt")
        if os.path.exists(extra):
            meta["note"] = open(extra).read().strip()
        with open(os.path.join(d, "meta.json"), "w") as f:
            json.dump(meta, f, indent=1)
        rows.append((name, ev.get("demo_without_patch_rc"), ev.get("demo_with_patch_rc"),
                     ev.get("suite_summary"), detected, missed, broken))
    for r in rows:
        print(r)


if __name__ == "__main__":
    main()
