"""MANIFEST.setup_cmd: nothing to build; verify the interpreter the checks use."""
import sys

sys.dont_write_bytecode = True
import os

import json5  # noqa: F401
import packaging  # noqa: F401

sys.path.insert(0, "/repo")
import fortls  # noqa: F401

assert sys.version_info >= (3, 12), "sys.monitoring (step clock) needs Python 3.12"
assert hasattr(os, "unshare") or True
print("setup ok:", sys.version.split()[0], "fortls from", os.path.dirname(fortls.__file__))
