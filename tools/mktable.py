#!/venv/bin/python
"""Regenerate the table of seeded changes in DESIGN.md (between the SEEDED-TABLE markers) from seeded/*/meta.json."""
import glob
import json
import os

VERIF = os.path.dirname(os.path.dirname(os.path.abspath(__file__)))

# what had to be added to the machinery before the change was caught ("-" = caught as it stood)
STRENGTHENED = {
    "C03b": "macro-definition cycles added to the C03 text generator (`pp_storm`)",
    "C09a": "several content changes in one `didChange` notification",
    "C10a": "discard-close (didClose without saving, re-open) in C10 histories",
    "C15b": "split `EXTERNAL` declarations in the template workspaces",
    "C16b": "read-side death rule (server stops reading before `exit` was delivered)",
    "C20a": "rho shapes (cycle plus tail), shared member names, `touch_each` closure",
    "C20b": "pointer rings across mutually USE-ing modules with an edit of the refused file",
    "C01c": "`fortls.main()` brought inside the simulated boundary (§7.1); before that only "
            "`selftest-realpipe` saw it",
    "C01d": "buggify exceptions with an empty message (`KeyError0`, ...)",
    "C02d": "transient read fault under `didSave`",
    "C03c": "headers with bytes that are not UTF-8",
    "C03d": "second preprocessed document, `#undef`/re-`#define` histories across documents",
    "C09c": "read faults/races on the first `didOpen`/`didSave` of a file created after start-up",
    "C09d": "`chain_workspace` (three-file inheritance chain whose middle module is the only link) "
            "and member-access queries",
    "C10c": "transient read fault + identical re-announcement; transcripts per client message "
            "(notifications are compared too)",
    "C10d": "transitive parent types in the program model (`accessible_types`), type moved/deleted "
            "after an earlier query",
    "C15c": "C15 'unreadable file' class (path-addressed persistent fault); C18's faulty class saw it "
            "as it stood",
    "C16c": "case-variant twin file + documentSymbol URI/content oracle",
    "C17c": "the same hostile condition delivered repeatedly in one process",
    "C17d": "configuration files that are not JSON but are valid Python",
    "C18c": "symlink loops / dangling links in the generated trees",
    "C01e": "string zoo in C01 (lone surrogates sent as escapes, NUL, separators, non-BMP, long)",
    "C02e": "separator/case-fold character zoo in generated text (FF, VT, FS..RS, NEL, LS, PS, dotted I, "
            "long s, Kelvin sign)",
    "C02f": "the driver numbers document versions as a conforming client does (restart at every didOpen)",
    "C03e": "case-fold twin corruption of letters in C03 texts",
    "C09e": "continuation-line edits ('name &') and positions in column 0 / leading blanks of continuation lines",
    "C09f": "file-system clock seam (fine/coarse/frozen stamps) + same-size rewrites (C09) / reorder operator (C10)",
    "C10e": "programs without PROGRAM statement, names reaching a program only through a used module",
    "C15e": "types local to a submodule that extend a type of the parent module",
    "C15f": "shadowing: procedure-local USE ... ONLY of a name the host module also defines",
    "C16e": "normalisation- and case-folding-sensitive file names",
    "C17f": "enumerated hostile values (factory specs, handler descriptions, paths, code) for every option the "
            "tree under test knows, one per configuration file",
    "C18e": "decoy command-line value for options the configuration file sets (C19 saw it as it stood)",
    "C19e": "configuration file location as a dimension (-c other name / sub-directory / outside the root)",
    "C19f": "whole battery repeated after a re-parse inside the server process; hover positions on declarations "
            "with out-of-order attributes",
    "C20e": "rho tails for the submodule shapes",
    "C20f": "member-access chains through names that are no components, on cyclic types",
    "C02h": "documents larger than one I/O block with a multi-byte character straddling the block boundary",
    "C03g": "#if conditions whose evaluation overflows, exhausts memory or the stack",
    "C09g": "continued declarations in the generated programs, in-line edits of continuation lines, focused "
            "queries on the neighbourhood of every edit before and after it",
    "C09h": "workspace/didChangeWatchedFiles for open documents whose file another tool touched (C02 and C09)",
    "C10g": "as it stood after the round-3 template extensions (shadowing, names reaching a unit through a used "
            "module) at the quick tier's case count",
    "C10h": "TAB-indented rendering of the template workspaces",
    "C15g": "INCLUDE fragments placed in another source directory than the including file",
    "C16h": "editor-only characters (lone surrogates, NUL, separators) brought in by didChange and echoed by "
            "hover/completion",
    "C17g": "hostile and plain text in every Fortran expression position (constant initialisers with kinds, "
            "bounds, lengths, DATA, conditions)",
    "C19g": "relation R6: configuration file rewritten + didChangeConfiguration; the answers must be those of a "
            "server on the old or on the new file, never a mixture",
    "C20g": "the cycle shapes also without any IMPLICIT statement",
    "C20h": "hosts with two dummy procedures declared with the host / with each other",
    "C01i": "the driver answers requests the server sends to the client, after 0-2 further messages of its own; "
            "full client capabilities and processId in initialize",
    "C02j": "closed documents rewritten with other contents of the same size (with the coarse/frozen file-system clock)",
    "C03i": "tokens beyond built-in size limits (labels, literals, kinds, lengths of > 4300 digits; 70 kB strings)",
    "C03j": "half surrogate pairs in texts delivered by didChange (frames fall back to \\uXXXX escapes)",
    "C10j": "types in INCLUDE fragments that the includer extends, edit_fragment operator, battery always asks "
            "every member access (quick tier sees it at about 1200 cases: thorough tier)",
    "C15i": "vendored modules named like bundled intrinsic ones in the template workspaces",
    "C15j": "headers for preprocessed template files placed next to another preprocessed source, a second "
            "preprocessed source",
    "C16i": "readiness/time seam: select() on the simulated stdin and sleep() answered from the client model and "
            "a virtual clock; bursts followed by a waiting client; idle-wait reported as a lost message",
    "C16j": "pairs of files whose names differ by what an over-eager URI conversion erases, one of them "
            "disappearing while open",
    "C17i": "sources beyond 'big file' thresholds (6000 lines) in the enumerated configuration cases",
    "C17j": "valid-but-unusual values for every option (extreme numbers, paths, switches), one per configuration file",
    "C18i": "literal path entries respelt ('./', trailing separator, 'a/../a/b', 'a/./b')",
    "C18j": "file names that are not in NFC",
    "C20j": "shape 'func_result': functions whose result is declared with themselves / a ring of them",
}
STRENGTHENED.update(json.load(open(os.path.join(VERIF, "seeded", "strengthened.json")))
                    if os.path.exists(os.path.join(VERIF, "seeded", "strengthened.json")) else {})


def main():
    rows = []
    dropped = []
    for f in sorted(glob.glob(os.path.join(VERIF, "seeded", "*", "meta.json"))):
        m = json.load(open(f))
        if m["confirmed"]["demo_exit_with_patch"] != 1:
            dropped.append(m["id"])
            continue
        det = []
        for c, v in m["checks"].items():
            cl = [ln.strip() for ln in v["lines"] if ln.startswith("  clause")]
            if v["exit"] == 1:
                clause = cl[0].split(" site=")[0].replace("clause=", "") if cl else "?"
                det.append(f"{c} ({clause}, {v['seconds']:.0f}s)")
        missed = [c for c, v in m["checks"].items() if v["exit"] == 0]
        nd = m["needs_to_manifest"].replace("|", "/")
        last = STRENGTHENED.get(m["id"], "-")
        if not det and m.get("note"):
            last = m["note"].replace("|", "/").replace("\n", " ")
        rows.append(f"| {m['id']} | {nd} | {', '.join(det) or '**missed**'}"
                    f"{(' — not by ' + ', '.join(missed)) if (missed and det) else ''} | {last} |")
    out = ["| change | needs, in order to manifest | caught by (clause, wall time of the quick check) | "
           "strengthening that was needed first |", "|---|---|---|---|"] + rows
    out.append("")
    out.append(f"{len(rows)} changes kept; not counted (no longer manifest on the current HEAD): "
               f"{', '.join(dropped) or 'none'}.")
    p = os.path.join(VERIF, "DESIGN.md")
    s = open(p).read()
    a, b = "<!-- SEEDED-TABLE-BEGIN -->", "<!-- SEEDED-TABLE-END -->"
    i, j = s.index(a) + len(a), s.index(b)
    s = s[:i] + "\n" + "\n".join(out) + "\n" + s[j:]
    open(p, "w").write(s)
    print(len(rows), "rows;", "dropped", dropped)


if __name__ == "__main__":
    main()
