#!/bin/sh
# usage: evalall.sh name prop [extra checks]
cd /verif
for spec in "$@"; do
  name=$(echo $spec | cut -d: -f1); checks=$(echo $spec | cut -d: -f2 | tr ',' ' ')
  /venv/bin/python -B tools/eval_seeded.py seeded/$name $name $checks > /verif/out/eval_$name.log 2>&1
done
