#!/venv/bin/python
"""Regenerate MANIFEST.json from the property modules that exist (claimed) and
the fixed not-applicable list.  Run from /verif."""
import json
import os
import sys

VERIF = os.path.dirname(os.path.dirname(os.path.abspath(__file__)))
sys.path.insert(0, VERIF)
sys.dont_write_bytecode = True

NOT_APPLICABLE = {
    "C04": "outline/workspace symbols are a pure function of the program text: no schedule, "
           "clock, fault, interleaving or history for a simulator to control (DESIGN 3)",
    "C05": "definition targets are a pure function of the (multi-file) program; deciding it needs "
           "a scoping ground truth, not a simulator",
    "C06": "reference/rename sets are a pure function of the program; needs a binding ground truth",
    "C07": "diagnostics on valid/defective programs are a pure function of the program; its "
           "'fault_sequences' are seeded source defects, not runtime faults",
    "C08": "active regions and the macro table are a pure function of text and initial "
           "definitions; needs a reference C preprocessor, not a simulator",
    "C11": "hover/signature text is a pure function of the declaration text",
    "C12": "completion lists are a pure function of program and cursor",
    "C13": "a metamorphic relation between two texts; no nondeterminism, fault or history involved",
    "C14": "a metamorphic relation between two renderings; no nondeterminism involved",
}
PENDING = "check not built yet in this round (planned with deterministic simulation, DESIGN 3)"

LEVEL_TEXT = {}
NOTES = {}


def main():
    from dst import props

    checks = []
    claimed = []
    engines = {"session": [], "startup": []}
    for n in range(1, 21):
        pid = f"C{n:02d}"
        if pid in NOT_APPLICABLE:
            continue
        try:
            P = props.get(pid)
        except ModuleNotFoundError:
            continue
        if getattr(P, "DISABLED", False):
            continue
        claimed.append(pid)
        engines[getattr(P, "ENGINE", "session")].append(pid)
        checks.append({
            "property_id": pid,
            "quick_cmd": f"./check {pid} --tier quick",
            "thorough_cmd": f"./check {pid} --tier thorough",
            "evidence_file": f"/verif/evidence/{pid}.json",
            "replay_cmd_template": f"./check {pid} --replay {{path}}",
            "engine": getattr(P, "ENGINE", "session"),
            "level_claimed": {"category": P.LEVEL, "text": P.LEVEL_TEXT,
                              "design_ref": f"DESIGN.md section 3, {pid}"},
            "level_note": P.LEVEL_NOTE,
            "technique": P.TECHNIQUE,
        })
    na = [{"property_id": k, "reason": v} for k, v in sorted(NOT_APPLICABLE.items())]
    for n in range(1, 21):
        pid = f"C{n:02d}"
        if pid not in NOT_APPLICABLE and pid not in claimed:
            na.append({"property_id": pid, "reason": PENDING})
    hooks_commits = []
    man = {
        "version": 1,
        "setup_cmd": "/venv/bin/python -B /verif/tools/setup_check.py",
        "hooks": {
            "guard": "none (no hooks: every seam is taken from outside /repo by constructor "
                     "injection or attribute replacement inside the simulator's child process)",
            "enable": "nothing to enable; checks import fortls from /repo's working tree as is",
            "baseline_off_cmd": "cd /repo && /venv/bin/python -m pytest -ra -q -p no:cacheprovider "
                                "--timeout=900 --continue-on-collection-errors",
            "source_commits": hooks_commits,
            "add_only": True,
        },
        "engines": [
            {"name": "session", "path": "dst/run.py", "serves_properties": engines["session"],
             "kind_free_text": "deterministic simulation: real LangServer.run loop, single-threaded, "
                               "inversion of control through a simulated stdin; seeded histories, "
                               "disk/transport/handler faults, step clock"},
            {"name": "startup", "path": "dst/run.py", "serves_properties": engines["startup"],
             "kind_free_text": "deterministic simulation of server start-up: simulated disk tree, "
                               "SimPool worker scheduling, directory order, hash seed, config "
                               "channel; differential / reference-model oracles"},
        ],
        "checks": checks,
        "not_applicable": na,
        "notes": "Technique: deterministic simulation with fault injection (DESIGN.md). "
                 "Replay files are written under /verif/out/replays/. known_findings.json lists "
                 "open findings (suppressed by exact signature) and fixed ones (suppress nothing).",
    }
    with open(os.path.join(VERIF, "MANIFEST.json"), "w") as f:
        json.dump(man, f, indent=1)
    print("claimed:", claimed)


if __name__ == "__main__":
    main()
